"""
C16 - remove_unloaded deletes exactly the dead logic.

Decided (Circuit.remove_unloaded evaluated from circuit.py's source with `self` bound to the
reference Circuit model; exhaustive over all labelled DAGs on <= 3 nodes and a systematic subset /
all (thorough) on 4 nodes, each with every choice of output marks on its nodes' sinks and with a
constant source variant, plus hand-built circuits with blackbox pins and a dead loop; both flags):
  E   removed set == dead gates and constants (nothing from which an output or a blackbox input pin
      is reachable); with inputs=False no primary input and no blackbox pin is ever removed, with
      inputs=True dead primary inputs go as well
  U   every remaining node keeps its type, fan-in and output mark
  R   the returned collection is exactly the removed nodes
  I   a second call removes nothing
Not decided: circuits with more than 4 nodes (the worklist is size-generic).
"""
import itertools

from ..minieval import ModelRaise
from ..pkgenv import Package
from ..refmodel import RefBlackBox, RefCircuit, build
from .c12 import all_digraphs

FILE = "circuit.py"


def live_nodes(c):
    ends = set(c.outputs()) | c.filter_type("bb_input")
    live = set(ends)
    for e in ends:
        live |= c.graph.ancestors(e)
    return live


def check_one(P, c, inputs_flag, tag, fails, stats):
    before = {n: (c.type(n), frozenset(c.fanin(n)), c.is_output(n)) for n in c.nodes()}
    live = live_nodes(c)
    dead = set(c.nodes()) - live
    protected = {n for n in dead if c.type(n) in ("input", "bb_output", "bb_input")}
    must_remove = {n for n in dead if c.type(n) not in ("input", "bb_output", "bb_input")}
    if inputs_flag:
        must_remove |= {n for n in dead if c.type(n) == "input"}
        may_remove = {n for n in dead if c.type(n) == "bb_output"}
        forbidden = live | {n for n in dead if c.type(n) == "bb_input"}
    else:
        may_remove = set()
        forbidden = live | protected
    work = c.copy()
    r = P.call_method(FILE, "Circuit.remove_unloaded", work, inputs=inputs_flag)
    stats["evals"] += 1

    def fail(rule, what, fact):
        fails.setdefault((rule, what), dict(fact, circuit=tag, inputs_flag=inputs_flag))

    if r[0] != "return":
        fail("C16.E.exact", "raises", {"result": str(r)[:120]})
        return
    try:
        returned = list(r[1])
    except TypeError:
        fail("C16.R.returns-removed", "not-iterable", {"result": str(r[1])[:80]})
        return
    gone = set(before) - set(work.nodes())
    kept_dead = must_remove - gone
    wrongly = gone & forbidden
    if wrongly:
        kinds = sorted({("live node" if n in live else work_type(before, n)) for n in wrongly})
        fail("C16.E.exact", f"removes {kinds[0]}", {"removed": sorted(wrongly), "live": sorted(live)})
    if kept_dead:
        fail("C16.E.exact", "keeps dead logic", {"kept": sorted(kept_dead), "dead": sorted(dead)})
    if set(returned) != gone or len(returned) != len(set(returned)):
        fail("C16.R.returns-removed", "returned != removed", {"returned": sorted(returned), "removed": sorted(gone)})
    for n in work.nodes():
        now = (work.type(n), frozenset(work.fanin(n)), work.is_output(n))
        exp = (before[n][0], frozenset(before[n][1] - gone), before[n][2])
        if now != exp:
            fail("C16.U.untouched", "remaining node changed", {"node": n, "now": str(now), "expected": str(exp)})
    if set(work.nodes()) - set(before):
        fail("C16.U.untouched", "node added", {"added": sorted(set(work.nodes()) - set(before))})
    r2 = P.call_method(FILE, "Circuit.remove_unloaded", work, inputs=inputs_flag)
    stats["evals"] += 1
    if r2[0] != "return" or list(r2[1]):
        fail("C16.I.idempotent", "second call removes more", {"second": str(r2)[:120]})


def work_type(before, n):
    t = before[n][0]
    return {"input": "a primary input", "bb_output": "a blackbox output pin", "bb_input": "a blackbox input pin"}.get(t, f"a {t}")


def labelled(names, edges):
    preds = {n: [u for u, v in edges if v == n] for n in names}
    succ = {n: [v for u, v in edges if u == n] for n in names}
    sinks = [n for n in names if not succ[n]]
    srcs = [n for n in names if not preds[n]]
    for variant in ("inputs", "const"):
        spec = {}
        for i, n in enumerate(names):
            if preds[n]:
                spec[n] = ("and" if len(preds[n]) > 1 else "not", preds[n])
            else:
                spec[n] = (("1" if (variant == "const" and n == srcs[0]) else "input"), [])
        for k in range(len(sinks) + 1):
            for outs in itertools.combinations(sinks, k):
                yield f"{variant}:outs={','.join(outs)}", build(spec, outputs=list(outs))
        # an internal node marked as output, sinks dead
        inner = [n for n in names if succ[n] and preds[n]]
        if inner:
            yield f"{variant}:inner-out={inner[0]}", build(spec, outputs=[inner[0]])


def special_circuits():
    ff = RefBlackBox("ff", ["d", "en"], ["q", "qn"])
    yield "bb-unloaded-pins", build({"a": ("input", []), "b": ("input", []), "u.q": ("bb_output", []), "u.qn": ("bb_output", []), "w": ("buf", ["u.q"]), "g": ("and", ["a", "w"]),
                                      "u.d": ("bb_input", ["g"]), "u.en": ("bb_input", []), "dead": ("or", ["b", "w2"]), "w2": ("buf", ["u.qn"])}, outputs=[], blackboxes={"u": ff})
    yield "bb-output-feeds-only-dead", build({"a": ("input", []), "u.q": ("bb_output", []), "w": ("buf", ["u.q"]), "n": ("not", ["w"]), "o": ("buf", ["a"])}, outputs=["o"],
                                              blackboxes={"u": RefBlackBox("src", [], ["q"])})
    yield "instance-name-with-a-dot", build({"a": ("input", []), "core.ff0.d": ("bb_input", ["g"]), "core.ff0.en": ("bb_input", []), "core.ff0.q": ("bb_output", []), "w": ("buf", ["core.ff0.q"]),
                                                "g": ("not", ["a"]), "dead": ("buf", ["w"])}, outputs=[], blackboxes={"core.ff0": RefBlackBox("ff", ["d", "en"], ["q"])})
    yield "input-becomes-unloaded-late", build({"a": ("input", []), "b": ("input", []), "g": ("and", ["a", "b"]), "h": ("not", ["g"]), "k": ("or", ["h", "g"]), "o": ("buf", ["b"])}, outputs=["o"])
    yield "output-is-input", build({"a": ("input", []), "b": ("input", []), "g": ("xor", ["a", "b"])}, outputs=["a"])
    yield "constants", build({"z": ("0", []), "w": ("1", []), "x": ("x", []), "a": ("input", []), "g": ("or", ["z", "a"]), "h": ("and", ["w", "x"])}, outputs=["g"])
    yield "all-dead", build({"a": ("input", []), "g": ("not", ["a"]), "h": ("buf", ["g"])}, outputs=[])
    yield "shared-dead-fanin", build({"a": ("input", []), "s": ("not", ["a"]), "d1": ("buf", ["s"]), "d2": ("not", ["s"]), "o": ("buf", ["a"])}, outputs=["o"])


def run(chk):
    repo = chk.repo
    chk.explanation = ("Circuit.remove_unloaded is evaluated from source by the checker's evaluator on the reference Circuit model, exhaustively over small labelled DAGs with all output-mark choices, "
                       "plus blackbox/constant/late-unloaded special cases, with both flag values; removed set, untouched remainder, return value and idempotence compared with the definition (reachability of an endpoint).")
    chk.assume("reference Circuit model for type/is_output/fanin/fanout/remove")
    from ..structural import vocabulary_rule

    vocabulary_rule(chk, repo, "C16.S.vocabulary", [(FILE, "Circuit.remove_unloaded")])
    P = Package(repo)
    fi = repo.func(FILE, "Circuit.remove_unloaded")
    fails = {}
    stats = {"evals": 0}
    n_c = 0
    for n in (1, 2, 3, 4):
        stride = 1 if (n < 4 or chk.tier == "thorough") else 29
        for names, edges in all_digraphs(n, stride=stride):
            c0 = build({x: ("and", [u for u, v in edges if v == x]) for x in names})
            if not c0.graph.is_dag():
                continue
            for tag, c in labelled(names, edges):
                for flag in (False, True):
                    check_one(P, c, flag, f"n={n}:{','.join(u + v for u, v in edges)}:{tag}", fails, stats)
                n_c += 1
    for tag, c in special_circuits():
        for flag in (False, True):
            check_one(P, c, flag, tag, fails, stats)
        n_c += 1
    # A dead combinational loop (p = and(a, q), q = not(p), neither reaching an output) is kept by the worklist, which only ever
    # removes nodes without fan-out.  The property quantifies over *acyclic* circuits, so this is outside it: recorded as a note,
    # not an obligation (it was carried as a known finding until the quantifier was re-read; see DESIGN.md section 1, #14).
    loop = build({"a": ("input", []), "p": ("and", ["a", "q"]), "q": ("not", ["p"]), "o": ("buf", ["a"])}, outputs=["o"])
    lf = {}
    check_one(P, loop, False, "dead-loop", lf, stats)
    chk.note("outside the quantifier (acyclic circuits): a dead combinational loop is " + ("kept" if lf else "removed") + " by remove_unloaded")
    rules = ["C16.E.exact", "C16.U.untouched", "C16.R.returns-removed", "C16.I.idempotent"]
    for rule in rules:
        mine = {k: v for k, v in fails.items() if k[0] == rule}
        if not mine:
            chk.ob(rule, "remove_unloaded::all model circuits", True, file=FILE, func="Circuit.remove_unloaded", line=fi.node.lineno, fact={"circuits": n_c, "evaluations": stats["evals"]})
        for (r, what), fact in mine.items():
            chk.ob(rule, f"remove_unloaded::{what}", False, file=FILE, func="Circuit.remove_unloaded", line=fi.node.lineno, fact=fact, expect="see rule description")
    # repeated application on ONE object with an edit in between that keeps node and edge counts (an output mark dropped, a
    # wire moved): the second call must do what a first call on a fresh identical circuit does (no memo of "nothing to do")
    from ..refmodel import build as _build

    def _base():
        return _build({"a": ("input", []), "b": ("input", []), "c": ("input", []), "g": ("and", ["a", "b"]), "y": ("not", ["g"]), "h": ("or", ["b", "c"]), "z": ("buf", ["h"]), "k": ("xor", ["a", "c"])},
                      outputs=["y", "z", "k"])

    def _drop_mark(cc):
        cc.set_output("y", False)
        return "set_output('y', False)"

    def _move_wire(cc):
        cc.disconnect("h", "z")
        cc.connect("g", "z")
        return "disconnect('h','z'); connect('g','z')"

    def _swap_marks(cc):
        cc.set_output("z", False)
        cc.set_output("h", True)
        return "set_output('z', False); set_output('h', True)"

    for ename, edit in (("output mark dropped", _drop_mark), ("wire moved", _move_wire), ("output mark moved", _swap_marks)):
        for flag in (False, True):
            cc = _base()
            r1 = P.call_method(FILE, "Circuit.remove_unloaded", cc, flag)
            try:
                what = edit(cc)
            except ModelRaise as e_:
                chk.ob("C16.H.no-stale-state", f"remove_unloaded::{ename}::inputs={flag}", False, file=FILE, func="Circuit.remove_unloaded", line=fi.node.lineno,
                       fact={"problem": "the first call removed a node that an output depends on (the follow-up edit is impossible)", "error": str(e_)[:100], "first_call_removed": str(r1)[:100]})
                continue
            fresh = cc.copy()
            r2 = P.call_method(FILE, "Circuit.remove_unloaded", cc, flag)
            r3 = Package(repo).call_method(FILE, "Circuit.remove_unloaded", fresh, flag)
            same = r2[0] == r3[0] and (r2[0] != "return" or sorted(r2[1]) == sorted(r3[1])) and cc._snapshot()[1:3] == fresh._snapshot()[1:3]
            chk.ob("C16.H.no-stale-state", f"remove_unloaded::{ename}::inputs={flag}", same, file=FILE, func="Circuit.remove_unloaded", line=fi.node.lineno,
                   fact={"edit": what, "second_call_removed": str(r2[1] if r2[0] == "return" else r2)[:100], "fresh_circuit_removed": str(r3[1] if r3[0] == "return" else r3)[:100]},
                   expect="the second call on the edited object equals a first call on a fresh identical circuit")
    chk.floor("model circuits", n_c, 300)
    chk.extra["model_circuits"] = n_c
