"""
C20 - `lint` decides well-formedness (the rule tables of lint itself).

Decided here (static, from utils.py's syntax tree):
  V   vocabulary: every literal a node type is compared with in lint is a supported type
  N   node predicate: the guards of the per-node loop, tabulated over the finite abstract
      domain (type x fan-in count x fan-out count x output mark x load type x name form x flags),
      flag exactly the states the documented rules flag; no state makes a non-ValueError escape
  P   pin predicate: the blackbox loops flag exactly missing / mistyped pins
  H   `handle` raises ValueError under fail_fast and accumulates otherwise; accumulated errors
      are raised as ValueError at the end
Not decided: "every circuit the library produces is lint-clean".
"""
import ast
import itertools

from ..astutil import body_without_doc, contains_raise, dotted, func_params, method_name, raise_exc_name, walk_no_nested
from ..core import AnalysisError, norm, type_vocabulary
from ..minieval import BlockInterp, ModelRaise, Unsupported
from ..models import MISSING, MBlackBox, MCircuit
from ..typetables import MULTI_FANIN, NO_FANIN, SINGLE_FANIN, collect_type_tests, reference_partition

FILE = "utils.py"


def find_lint(chk):
    fi = chk.repo.func(FILE, "lint")
    fn = fi.node
    params = func_params(fn)
    for need in ("fail_fast", "unloaded", "undriven", "single_input_gates"):
        if need not in params:
            raise AnalysisError(f"lint() lost its documented flag '{need}'", FILE, fn.lineno)
    return fi


def is_nodes_iter(it, cname):
    d = dotted(it)
    return d in (f"{cname}.nodes()", cname, f"{cname}.graph.nodes", f"{cname}.graph.nodes()", f"{cname}.graph")


def run(chk):
    repo = chk.repo
    voc = reference_partition(repo)
    sup = voc["supported_types"]
    fi = find_lint(chk)
    fn = fi.node
    cname = func_params(fn)[0]
    chk.explanation = (
        "lint()'s own rule tables: vocabulary of every type literal; the guards of the per-node loop and of the "
        "blackbox-pin loops are extracted from the syntax tree and tabulated exhaustively over a finite abstract domain "
        "against the documented rule set; handle()/final-raise exception discipline. Static only: utils.py is parsed, never imported."
    )
    chk.assume("integer fan-in / fan-out counts are abstracted to 0..K where K exceeds every integer constant in lint's guards")
    chk.assume("Circuit.type(n) raises KeyError for a node without a type attribute (read from circuit.py by C12/C07 rules)")

    # ---- V: vocabulary -------------------------------------------------
    tests = []
    for (rel_, qual_), fi_ in sorted(repo.funcs.items()):
        if rel_ == FILE and qual_.split(".")[0] not in ("visualize", "clog2", "int_to_bin", "bin_to_int"):
            tests += collect_type_tests(repo, fi_)
    nv = 0
    for t in tests:
        for lit in t.lits:
            nv += 1
            chk.ob(
                "C20.V.vocabulary",
                f"lint::{t.subject_text or 'filter_type'}::{lit}",
                lit in sup,
                file=FILE,
                func="lint",
                line=t.line,
                fact={"literal": lit, "comparison": norm(t.node)},
                expect="a member of circuit.supported_types",
            )
    # ... and the type names in module-level tables of the file (a table-driven lint compares no literal itself): a table at least
    # three of whose strings are supported types is a table about node types - every string in it must be one
    for st in repo.tree[FILE].body:
        value = st.value if isinstance(st, (ast.Assign, ast.AnnAssign)) else None
        if value is None:
            continue
        # the collections inside the value whose members are all strings (a tuple of type names, the keys of a dict): the ones that
        # name at least two supported types are about node types (message texts, format templates ... sit in mixed rows)
        lits = []
        for coll in ast.walk(value):
            members = coll.elts if isinstance(coll, (ast.Tuple, ast.List, ast.Set)) else [k_ for k_ in coll.keys if k_ is not None] if isinstance(coll, ast.Dict) else None
            if members and all(isinstance(m_, ast.Constant) and isinstance(m_.value, str) for m_ in members) and sum(1 for m_ in members if m_.value in sup) >= 2:
                lits += members
        if not lits:
            continue
        tname = norm(st.targets[0] if isinstance(st, ast.Assign) else st.target)[:40]
        for x in lits:
            nv += 1
            chk.ob("C20.V.vocabulary", f"table {tname}::{x.value}", x.value in sup, file=FILE, func="<module>", line=x.lineno, fact={"literal": x.value, "table": tname}, expect="a member of circuit.supported_types")
    if nv >= 5:
        chk.floor("type literals compared in lint", nv, 5)
    else:
        chk.note(f"C20.V.vocabulary abstains: only {nv} type literal(s) are compared in utils.py (the rules are written some other way); C20.N decides on abstract states")

    body = body_without_doc(fn)
    # names a refactoring may bind at module level or in the function prologue (lookup tables, helpers)
    from ..pkgenv import Package

    P20 = Package(repo)  # one environment for every evaluation below: state that outlives a call (a mutable default argument,
    # a module-level table) is part of what is evaluated
    pre_env = P20.env(FILE)
    pre_env.setdefault("supported_types", list(sup))

    # ---- N: node predicate, by evaluating the whole function on one-node-under-test model circuits ---------
    # Robust to any restructuring of lint (helper closures, generators, dispatch tables): the body is evaluated for
    # every abstract state of one node g whose neighbours are always lint-clean; lint must raise ValueError exactly
    # for the states that violate a documented rule, in both fail_fast modes, and nothing else may escape.
    ints = [n.value for n in ast.walk(fn) if isinstance(n, ast.Constant) and isinstance(n.value, int) and not isinstance(n.value, bool) and 0 <= n.value < 50]
    ints = [i for i in ints if i != 10]  # 10 is the length of the error summary, not a fan-in bound
    K = max([2] + ints) + 1
    if K > 5:
        raise AnalysisError(f"lint(): integer constant {K-1} in a guard; abstract count domain would explode", FILE, fn.lineno)

    def run_lint_node(c, flags, fail_fast):
        r = P20.call(FILE, "lint", c, fail_fast=fail_fast, undriven=flags[0], unloaded=flags[1], single_input_gates=flags[2])
        return r[:2] if r[0] == "raise" else ("return", None)

    # "arbitrary type/output attributes": besides an unknown string, attribute values of other kinds - among them an unhashable
    # one, which a hashed lookup would answer with TypeError where the documented report is ValueError - and an output flag
    # that is truthy without being the object True
    junk_types = [["and"], None, 7, 0, 1]  # ints 0 / 1: the *strings* "0" and "1" are supported types
    types = list(sup) + [MISSING, "bogus_type"] + junk_types
    # (a load without a type attribute: the circuit is ill-formed whatever g is - and the report is still ValueError)
    fo_states = [(0, None)] + [(k, ft) for k in range(1, min(K, 3) + 1) for ft in ("buf", "not")] + [(1, MISSING), (2, MISSING)]
    # dotted names: instance registered / not registered / not registered while a registered instance's name is a proper
    # prefix of it (u1 next to u10) / while it is a proper prefix of a registered one
    name_forms = [("n0", {}), ("u0.p", {"u0": True}), ("u1.p", {}), ("u10.p", {"u1": True}), ("u1.p", {"u10": True, "u": True})]
    flag_sets = list(itertools.product([False, True], repeat=3))
    if chk.tier == "quick":
        flag_sets = [(False, False, False), (True, False, False), (False, True, False), (False, False, True), (True, True, True)]
    n_states = 0
    bad = {}
    for t in types:
        for fic in range(0, K + 1):
            for foc, fot in fo_states:
                for out in (False, True, 1):
                    for g, bbs in name_forms:
                        is_junk = any(t is j for j in junk_types)
                        if chk.tier == "quick" and g != "n0" and (is_junk or t not in ("and", "bb_input", "input", MISSING) or fic > 1 or foc > 1):
                            continue  # the dotted-name rule does not interact with the type / count rules; thorough crosses everything
                        if (is_junk or out == 1 and out is not True) and chk.tier == "quick" and (fic > 1 or foc > 1):
                            continue
                        attrs = {g: {"output": out}}
                        if t != MISSING:
                            attrs[g]["type"] = t
                        edges = []
                        for i in range(fic):
                            attrs[f"fi{i}"] = {"type": "input", "output": False}
                            edges.append((f"fi{i}", g))
                        for i in range(foc):
                            attrs[f"fo{i}"] = {"output": True} if fot is MISSING else {"type": fot, "output": True}
                            edges.append((g, f"fo{i}"))
                        tr = "bogus_type" if is_junk else t  # for the lookups of the reference: no other documented rule speaks about such a value
                        bbmap = {k: MBlackBox("bb", [], []) for k in bbs}
                        for undriven, unloaded, sig in flag_sets:
                            n_states += 1
                            clauses = []
                            if t is MISSING or (foc and fot is MISSING):
                                clauses.append("no-type")
                            elif is_junk or t not in sup:
                                clauses.append("unsupported-type")
                            if "." in g and g.split(".")[0] not in bbmap:
                                clauses.append("dotted-name-without-instance")
                            if tr in NO_FANIN and fic > 0:
                                clauses.append(f"fanin-on-{tr}")
                            if tr in SINGLE_FANIN and fic > 1:
                                clauses.append(f"multiple-fanin-on-{tr}")
                            if tr == "bb_output" and foc > 1:
                                clauses.append("bb_output-multiple-loads")
                            if tr == "bb_output" and foc >= 1 and fot != "buf":
                                clauses.append("bb_output-non-buf-load")
                            if undriven and tr in (SINGLE_FANIN | MULTI_FANIN) and fic < 1:
                                clauses.append(f"undriven-{tr}")
                            if sig and tr in MULTI_FANIN and fic < 2:
                                clauses.append(f"single-input-{tr}")
                            dont_care = False
                            # (a blackbox input pin never has fan-out - its load is the blackbox - and is not an unloaded node: with the
                            # other reading no circuit with a blackbox instance, the library's own s27 among them, passes the flag)
                            if unloaded and not out and foc == 0 and tr != "bb_input":
                                clauses.append("unloaded")
                            # the fan-in neighbours are inputs that feed only g: with g typed so that the edge is illegal they stay clean themselves
                            want = bool(clauses)
                            for fail_fast in (True, False):
                                c = MCircuit({k: dict(v) for k, v in attrs.items()}, edges, bbmap)
                                r = run_lint_node(c, (undriven, unloaded, sig), fail_fast)
                                got = r[0] == "raise" and r[1] == "ValueError"
                                state = {"type": repr(attrs[g].get("type", MISSING)) if is_junk else t, "fanin": fic, "fanout": foc, "load_type": fot, "output": out, "name": g, "instance_known": bool(bbmap),
                                         "undriven": undriven, "unloaded": unloaded, "single_input_gates": sig, "fail_fast": fail_fast}
                                if r[0] == "raise" and r[1] != "ValueError":
                                    key = f"escape:{r[1]}:" + (clauses[0] if clauses else f"type={tr}")
                                    bad.setdefault(("C20.N.only-ValueError-escapes", key), state)
                                    continue
                                if dont_care:
                                    continue
                                if want and not got:
                                    bad.setdefault(("C20.N.rule-missed", f"missed:{clauses[0]}" + ("" if fail_fast else ":accumulating-mode")), state)
                                elif got and not want:
                                    bad.setdefault(("C20.N.spurious-report", f"spurious:type={tr}:fanin={min(fic,2)}:fanout={min(foc,2)}"), state)
    ref_clauses = (
        ["no-type", "unsupported-type", "dotted-name-without-instance", "bb_output-multiple-loads", "bb_output-non-buf-load", "unloaded"]
        + [f"fanin-on-{t}" for t in sorted(NO_FANIN)]
        + [f"multiple-fanin-on-{t}" for t in sorted(SINGLE_FANIN)]
        + [f"undriven-{t}" for t in sorted(SINGLE_FANIN | MULTI_FANIN)]
        + [f"single-input-{t}" for t in sorted(MULTI_FANIN)]
    )
    for cl in ref_clauses:
        hits = {k: v for k, v in bad.items() if k[0] == "C20.N.rule-missed" and k[1] in (f"missed:{cl}", f"missed:{cl}:accumulating-mode")}
        if not hits:
            chk.ob("C20.N.rule-missed", f"missed:{cl}", True, file=FILE, func="lint", line=fn.lineno, fact={"clause": cl, "reported_in_all_states": True})
        for (rule, key), st in hits.items():
            chk.ob(rule, key, False, file=FILE, func="lint", line=fn.lineno, fact={"abstract_state_not_reported": st}, expect="ValueError in every abstract state that violates this documented rule (both fail_fast modes)")
    for (rule, key), st in bad.items():
        if rule == "C20.N.rule-missed":
            continue
        chk.ob(rule, key, False, file=FILE, func="lint", line=fn.lineno, fact={"abstract_state": st},
               expect="no report in a state violating no documented rule" if "spurious" in rule else "only ValueError may escape lint")
    if not any(r == "C20.N.only-ValueError-escapes" for r, _ in bad):
        chk.ob("C20.N.only-ValueError-escapes", "lint::all abstract states", True, file=FILE, func="lint", line=fn.lineno, fact={"states": n_states * 2, "escapes": 0})
    if not any(r == "C20.N.spurious-report" for r, _ in bad):
        chk.ob("C20.N.spurious-report", "lint::all abstract states", True, file=FILE, func="lint", line=fn.lineno, fact={"states": n_states * 2, "spurious": 0})
    # many violations at once (more than the summary lists): still one ValueError, in both modes
    for n_bad in (1, 9, 10, 11, 12, 25):
        attrs_ = {"a": {"type": "input", "output": False}}
        edges_ = []
        for i_ in range(n_bad):
            attrs_[f"k{i_}"] = {"type": "1", "output": True}
            edges_.append(("a", f"k{i_}"))  # fan-in on a constant
        for fail_fast in (True, False):
            r = run_lint_node(MCircuit({k: dict(v) for k, v in attrs_.items()}, edges_, {}), (True, False, False), fail_fast)
            ok_ = r[0] == "raise" and r[1] == "ValueError"
            chk.ob("C20.N.only-ValueError-escapes" if r[0] == "raise" else "C20.N.rule-missed", f"lint::{n_bad} violations at once::fail_fast={fail_fast}", ok_, file=FILE, func="lint", line=fn.lineno,
                   fact={"result": str(r)[:100], "violations": n_bad}, expect="ValueError")
    chk.extra["abstract_states_node_predicate"] = n_states * 2
    chk.floor("abstract states tabulated for the node predicate", n_states, 1000)

    class _BB:
        lineno = fn.lineno

    bb_loop = _BB()

    # ---- P: pin predicate (whole function evaluated on registry models) -----
    # Robust to any restructuring of the blackbox section: lint's body is evaluated on model circuits whose
    # only possible defect is a missing / mistyped pin; it must raise ValueError exactly for those.
    params = func_params(fn)

    def run_lint(c, fail_fast):
        r = P20.call(FILE, "lint", c, fail_fast=fail_fast, unloaded=False, undriven=False, single_input_gates=False)
        return r[:2] if r[0] == "raise" else ("return", None)

    def registry_model(defs):
        """defs: {inst: (bbname, {pin: ('in'|'out', present, type)})}; type MISSING = the pin node exists without a type attribute"""
        attrs = {"a": {"type": "input", "output": False}, "o": {"type": "buf", "output": True}}
        edges = [("a", "o")]
        bbs = {}
        for inst, (bbname, pins) in defs.items():
            bbs[inst] = MBlackBox(bbname, [p for p, (d, _, _) in pins.items() if d == "in"], [p for p, (d, _, _) in pins.items() if d == "out"])
            for pin, (d, present, t) in pins.items():
                if present:
                    attrs[f"{inst}.{pin}"] = {"output": False} if t is MISSING else {"type": t, "output": False}
        return MCircuit(attrs, edges, bbs)

    n_pin = 0
    cases = []
    for d, good, bads in (("in", "bb_input", ["bb_output", "buf", "input"]), ("out", "bb_output", ["bb_input", "buf", "input"])):
        cases.append((f"pin:{d}:ok", {"u0": ("ff", {"p": (d, True, good)})}, False))
        cases.append((f"pin:{d}:missing", {"u0": ("ff", {"p": (d, False, None)})}, True))
        for t in bads:
            cases.append((f"pin:{d}:typed-{t}", {"u0": ("ff", {"p": (d, True, t)})}, True))
        cases.append((f"pin:{d}:node-without-a-type", {"u0": ("ff", {"p": (d, True, MISSING)})}, True))
    ok2 = {"p": ("in", True, "bb_input"), "q": ("out", True, "bb_output")}
    cases.append(("two-instances:ok", {"u0": ("ff", dict(ok2)), "u1": ("ff", dict(ok2))}, False))
    cases.append(("two-instances:second-missing-pin", {"u0": ("ff", dict(ok2)), "u1": ("ff", {"p": ("in", True, "bb_input"), "q": ("out", False, None)})}, True))
    # two different definitions that share a name (generic_flop 'ff' next to the library's 'ff' with other pins)
    other = {"ck": ("in", True, "bb_input"), "d": ("in", True, "bb_input"), "z": ("out", True, "bb_output")}
    cases.append(("same-name-different-definitions:ok", {"u0": ("ff", dict(ok2)), "u1": ("ff", dict(other))}, False))
    cases.append(("same-name-different-definitions:ok-reversed", {"u1": ("ff", dict(other)), "u0": ("ff", dict(ok2))}, False))
    bad_other = dict(other)
    bad_other["z"] = ("out", True, "buf")
    cases.append(("same-name-different-definitions:second-mistyped", {"u0": ("ff", dict(ok2)), "u1": ("ff", bad_other)}, True))
    bad_other2 = dict(other)
    bad_other2["ck"] = ("in", False, None)
    cases.append(("same-name-different-definitions:first-missing", {"u1": ("ff", bad_other2), "u0": ("ff", dict(ok2))}, True))
    cases.append(("unnamed-blackboxes", {"u0": (None, dict(ok2)), "u1": (None, dict(other))}, False))
    for key, defs, want in cases:
        for fail_fast in (True, False):
            n_pin += 1
            r = run_lint(registry_model(defs), fail_fast)
            got = r[0] == "raise" and r[1] == "ValueError"
            escaped = r[0] == "raise" and r[1] != "ValueError"
            if escaped:
                chk.ob("C20.P.only-ValueError-escapes", key, False, file=FILE, func="lint", line=bb_loop.lineno, fact={"escapes": r[1], "fail_fast": fail_fast})
            else:
                chk.ob("C20.P.pin-predicate", key + (":ff" if fail_fast else ":acc"), got == want, file=FILE, func="lint", line=bb_loop.lineno,
                       fact={"registry": {i: [n, sorted(p)] for i, (n, p) in defs.items()}, "reported": got, "result": str(r)[:80]}, expect={"reported": want})
    chk.floor("pin states tabulated", n_pin, 20)
    library_outputs_rule(chk)


class _Stop(Exception):
    pass


def library_outputs_rule(chk):
    """C20 second sentence, on model families: what the parsers, generators, fully connected composition calls
    and function-preserving transforms produce from lint-clean arguments is itself lint-clean (lint evaluated
    from source on the reference-model result)."""
    from ..pkgenv import Package
    from ..refmodel import RefBlackBox, RefCircuit, build
    from ..semantic import deep_circuits, one_gate_circuits
    from ..verilogmodel import ParseError, full_parse

    repo = chk.repo
    P = Package(repo)
    n = 0

    def lint_clean(c):
        r = P.call(FILE, "lint", c)
        return None if r[0] == "return" else {"lint": str(r)[:200]}

    def ob(key, c, func):
        nonlocal n
        if isinstance(c, tuple) and len(c) >= 2 and c[0] == "raise" and c[1] == "ValueError":
            return  # the producer rejected its argument (documented precondition): nothing was produced
        n += 1
        prob = {"problem": "producer did not return a circuit", "result": str(c)[:120]} if not isinstance(c, RefCircuit) else lint_clean(c)
        chk.ob("C20.L.library-output-lint-clean", key, prob is None, file=FILE, func=func, fact=prob or {"nodes": len(c.nodes())}, expect="lint(c) does not raise")

    def val(r):
        return r[1] if r[0] == "return" else r

    # generators
    ob("logic.half_adder", val(P.call("logic.py", "half_adder")), "logic.half_adder")
    ob("logic.full_adder", val(P.call("logic.py", "full_adder")), "logic.full_adder")
    for w in (1, 2, 3):
        for ci, co in ((False, False), (True, True)):
            ob(f"logic.adder({w},{ci},{co})", val(P.call("logic.py", "adder", w, ci, co)), "logic.adder")
    for w in (2, 3, 4, 5):
        ob(f"logic.mux({w})", val(P.call("logic.py", "mux", w)), "logic.mux")
    # (widths on both sides of the powers of two, even and odd: the padding constant is kept exactly while something still reads it)
    for w in (1, 2, 3, 4, 5, 6, 7, 8, 9, 10, 12, 14):
        ob(f"logic.popcount({w})", val(P.call("logic.py", "popcount", w)), "logic.popcount")
    for w in (4, 6, 8):
        for ci, co in ((True, False), (False, True)):
            ob(f"logic.adder({w},{ci},{co})", val(P.call("logic.py", "adder", w, ci, co)), "logic.adder")
    # parsers
    ff = RefBlackBox("dff", ["clk", "d"], ["q", "qn"])
    texts = {
        "gates+assign": ("module m (a, b, o, p);\n  input a, b;\n  output o, p;\n  wire w;\n  and g0 (w, a, b);\n  assign o = w;\n  assign p = 1'b1;\nendmodule\n", []),
        "blackbox": ("module s (ck, a, y);\n  input ck, a;\n  output y;\n  wire d0, q0;\n  xor x0 (d0, a, q0);\n  dff r0 (.clk(ck), .d(d0), .q(q0), .qn());\n  buf b0 (y, q0);\nendmodule\n", [ff]),
        "constant-only-in-assign": ("module k (a, y, z);\n  input a;\n  output y, z;\n  assign y = 1'b0;\n  buf b0 (z, a);\nendmodule\n", []),
        "constants-of-other-bases-in-ports-and-pins": ("module k (ck, a, y, z);\n  input ck, a;\n  output y, z;\n  wire q0;\n  and a0 (z, a, 1'h1);\n  dff r0 (.clk(ck), .d(1'd0), .q(q0), .qn());\n  or o0 (y, q0, 1'h0);\nendmodule\n", [ff]),
        "constants-in-ports-and-assign": ("module k (a, y, z);\n  input a;\n  output y, z;\n  assign y = 1'b1;\n  and a0 (z, a, 1'b1);\nendmodule\n", []),
    }
    for name, (text, bbs) in texts.items():
        try:
            ob(f"full parser::{name}", full_parse(P, text, bbs), "parse_verilog_netlist")
        except ParseError as e:
            ob(f"full parser::{name}", str(e), "parse_verilog_netlist")
        ob(f"fast parser::{name}", val(P.call("parsing/fast_verilog.py", "fast_parse_verilog_netlist", text, bbs)), "fast_parse_verilog_netlist")
    ob("bench reader", val(P.call("io.py", "bench_to_circuit", "INPUT(a)\nINPUT(b)\nOUTPUT(o)\nq = DFF(d)\nd = XOR(a, q)\no = NAND(q, b)\n", "b")), "bench_to_circuit")
    # transforms on lint-clean arguments
    from ..corpus import corpus

    models = [(k, c) for k, c in deep_circuits()] + list(one_gate_circuits(max_arity=3, types=["nand", "xnor", "not"])) + [(f"corpus::{k}", c) for k, tags, c in corpus("quick", exclude=("x", "names", "wide"))]
    for k, c in models:
        if lint_clean(c) is not None:
            continue
        ob(f"limit_fanin({k},2)", val(P.call("tx.py", "limit_fanin", c, 2)), "limit_fanin")
        ob(f"limit_fanout({k},2)", val(P.call("tx.py", "limit_fanout", c, 2)), "limit_fanout")
        r = P.call("tx.py", "ternary", c)
        ob(f"ternary({k})", r[1][0] if r[0] == "return" else r, "ternary")
        ob(f"miter({k},{k})", val(P.call("tx.py", "miter", c, c.copy())), "miter")
        ob(f"acyclic_unroll({k})", val(P.call("tx.py", "acyclic_unroll", c)), "acyclic_unroll")
        ob(f"relabel({k})", val(P.call("tx.py", "relabel", c, {x: f"r_{x}" for x in c.nodes()})), "relabel")
        r = P.call("tx.py", "insert_registers", c, 1)
        if r[0] == "return":
            ob(f"insert_registers({k},1)", r[1], "insert_registers")
        gate = sorted(x for x in c.nodes() if c.type(x) not in ("input", "0", "1"))[0]
        ob(f"sensitivity_transform({k},{gate})", val(P.call("tx.py", "sensitivity_transform", c, gate)), "sensitivity_transform")
        ob(f"sensitization_transform({k},{gate})", val(P.call("tx.py", "sensitization_transform", c, gate)), "sensitization_transform")
    sm = build({"x": ("input", []), "s": ("input", []), "ns": ("xor", ["x", "s"]), "y": ("and", ["x", "s"])}, outputs=["ns", "y"])
    r = P.call("tx.py", "unroll", sm, 3, {"ns": "s"})
    ob("unroll(toggle,3)", r[1][0] if r[0] == "return" else r, "unroll")
    # fully connected composition
    child = build({"x": ("input", []), "y": ("input", []), "c": ("and", ["x", "y"]), "s": ("xor", ["x", "y"])}, outputs=["c", "s"])
    par = build({"A": ("input", []), "B": ("input", []), "T1": ("buf", []), "T2": ("buf", []), "O": ("or", ["T1", "T2"])}, outputs=["O"])
    P.call_method("circuit.py", "Circuit.add_subcircuit", par, child, "u0", {"x": "A", "y": "B", "c": "T1", "s": "T2"})
    ob("add_subcircuit fully connected", par, "Circuit.add_subcircuit")
    par2 = build({"A": ("input", []), "B": ("input", []), "T1": ("buf", []), "T2": ("buf", []), "O": ("or", ["T1", "T2"])}, outputs=["O"])
    bb = RefBlackBox("ha", ["x", "y"], ["c", "s"])
    P.call_method("circuit.py", "Circuit.add_blackbox", par2, bb, "u0", {"x": "A", "y": "B", "c": "T1", "s": "T2"})
    ob("add_blackbox fully connected", par2, "Circuit.add_blackbox")
    P.call_method("circuit.py", "Circuit.fill_blackbox", par2, "u0", child)
    ob("fill_blackbox", par2, "Circuit.fill_blackbox")
    # lint keeps no verdict between calls: a circuit that passed under one flag set is judged afresh under another, after an
    # edit, and as a different object with the same content (whole function from source, reference circuits, one environment)
    from ..refmodel import build as _build

    def _clean_by_default():
        # passes lint(c); violates unloaded (dead gate k), single_input_gates (1-input and), and - once undriven=False let it
        # through - undriven (u)
        return _build({"a": ("input", []), "b": ("input", []), "g": ("and", ["a"]), "k": ("or", ["a", "b"]), "o": ("xor", ["g", "b"])}, outputs=["o"])

    def _undriven():
        return _build({"a": ("input", []), "u": ("buf", []), "o": ("and", ["a", "u"])}, outputs=["o"])

    seqs = {
        "default then unloaded": (_clean_by_default, [({}, False), ({"unloaded": True}, True)]),
        "default then single_input_gates": (_clean_by_default, [({}, False), ({"single_input_gates": True}, True), ({}, False)]),
        "undriven=False then default": (_undriven, [({"undriven": False}, False), ({}, True), ({"undriven": False}, False)]),
        "accumulating then fail-fast": (_clean_by_default, [({"fail_fast": False}, False), ({"fail_fast": False, "unloaded": True, "single_input_gates": True}, True), ({"unloaded": True}, True)]),
    }
    for sname, (mk, calls) in seqs.items():
        cc = mk()
        prob = None
        for i_, (kw, want_raise) in enumerate(calls):
            r = P.call(FILE, "lint", cc, **kw)
            raised = r[0] == "raise" and r[1] == "ValueError"
            if r[0] == "raise" and r[1] != "ValueError":
                prob = {"call": i_ + 1, "flags": kw, "result": str(r)[:100]}
                break
            if raised != want_raise:
                prob = {"call": i_ + 1, "flags": kw, "raised": raised, "expected_to_raise": want_raise}
                break
        chk.ob("C20.H.no-verdict-kept-between-calls", f"lint::{sname}", prob is None, file=FILE, func="lint", fact=prob or {"calls": len(calls)}, expect="every call judges the circuit under its own flags")
    cc = _clean_by_default()
    r1 = P.call(FILE, "lint", cc)
    cc.set_type("o", "buf")  # same node and edge counts, now a buf with two fan-ins
    r2 = P.call(FILE, "lint", cc)
    chk.ob("C20.H.no-verdict-kept-between-calls", "lint::edit that keeps node and edge counts", r1[0] == "return" and r2[:2] == ("raise", "ValueError"), file=FILE, func="lint",
           fact={"first": str(r1)[:60], "after set_type('o','buf')": str(r2)[:80]}, expect="passes, then ValueError")
    # ---- the same producers over the repository's OWN Circuit class ("full stack"): what they build goes through circuit.py's
    # add / connect / relabel / set_type ..., so a defect in one of those primitives that only a producer exposes shows
    from ..pkgenv import build_full
    from ..semantic import reinserted as _re

    PFS = Package(repo, full_stack=True)

    def ob_full(key, r, func):
        nonlocal n
        if r[0] == "raise" and r[1] == "ValueError":
            return
        n += 1
        if r[0] != "return":
            chk.ob("C20.L.library-output-lint-clean", key, False, file=FILE, func=func, fact={"problem": "producer raises", "result": str(r)[:140]}, expect="a lint-clean circuit")
            return
        c_ = r[1][0] if isinstance(r[1], tuple) else r[1]
        rl = PFS.call(FILE, "lint", c_)
        chk.ob("C20.L.library-output-lint-clean", key, rl[0] == "return", file=FILE, func=func, fact={"lint": str(rl)[:200]} if rl[0] != "return" else {}, expect="lint(c) does not raise")

    order_texts = {
        "use before definition (assign expression after its reader)": "module m (a, b, o, p);\n  input a, b;\n  output o, p;\n  wire w, v;\n  not n0 (v, w);\n  buf b1 (p, w);\n  assign w = a & b;\n  buf b0 (o, v);\nendmodule\n",
        "declarations last, nested expression": "module m (a, b, c, o);\n  assign o = t ^ c;\n  assign t = ~(a | b) & c;\n  wire t;\n  output o;\n  input a, b, c;\nendmodule\n",
        "alias chain before its source": "module m (a, o, p);\n  input a;\n  output o, p;\n  wire w;\n  assign o = w;\n  assign p = ~w;\n  assign w = ~a;\nendmodule\n",
    }
    for name_, text_ in order_texts.items():
        try:
            cf = full_parse(PFS, text_, [])
            ob_full(f"full stack::full parser::{name_}", ("return", cf), "parse_verilog_netlist")
        except ParseError as e:
            ob_full(f"full stack::full parser::{name_}", ("raise", e.kind, str(e)), "parse_verilog_netlist")
        ob_full(f"full stack::fast parser::{name_}", PFS.call("parsing/fast_verilog.py", "fast_parse_verilog_netlist", text_, []), "fast_parse_verilog_netlist") if "assign o = t ^ c" not in text_ and "assign w = a & b" not in text_ and "~w" not in text_ else None
    ob_full("full stack::bench reader", PFS.call("io.py", "bench_to_circuit", "INPUT(a)\nINPUT(b)\nOUTPUT(o)\no = NAND(q, b)\nq = DFF(d)\nd = XOR(a, q)\n", "b"), "bench_to_circuit")
    for k, cm in [(k_, c_) for k_, c_ in deep_circuits()][:4] + [(f"corpus::{k_}", c_) for k_, t_, c_ in corpus("quick", want=("const", "feedthrough", "shared", "chains"))][:8]:
        if lint_clean(cm) is not None:
            continue
        spec = {n_: (cm.type(n_), sorted(cm.fanin(n_))) for n_ in cm.graph._node}
        try:
            cf = build_full(PFS, spec, outputs=sorted(cm.outputs()))
        except ModelRaise:
            continue
        ob_full(f"full stack::limit_fanin({k},2)", PFS.call("tx.py", "limit_fanin", cf, 2), "limit_fanin")
        ob_full(f"full stack::limit_fanout({k},2)", PFS.call("tx.py", "limit_fanout", cf, 2), "limit_fanout")
        ob_full(f"full stack::ternary({k})", PFS.call("tx.py", "ternary", cf), "ternary")
        ob_full(f"full stack::miter({k})", PFS.call("tx.py", "miter", cf), "miter")
        ob_full(f"full stack::relabel({k})", PFS.call("tx.py", "relabel", cf, {x: f"r_{x}" for x in spec}), "relabel")
        ob_full(f"full stack::strip_io-free copy({k})", PFS.call("tx.py", "subcircuit", cf, list(spec)), "subcircuit")
    chk.floor("library outputs linted", n, 60)
