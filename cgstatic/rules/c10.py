"""
C10 - ternary encoding computes Kleene three-valued simulation.

Decided (tx.ternary evaluated by cgstatic's evaluator over the reference Circuit model on model
circuits: every gate type at arity 1..3, two-level and multi-level circuits with reconvergence and
constants):
  R   the binary rail is the unchanged copy of c (same nodes, types, edges); mapping covers every
      node with distinct fresh companion nodes
  K   for every assignment of (value, X-flag) to the inputs - X-flag set means X, value arbitrary -
      mapping[n] == 1 exactly when gate-by-gate Kleene evaluation gives X at n, and otherwise n
      carries the Kleene value (exhaustive: 4^inputs assignments per model circuit)
  G   a circuit with blackboxes is rejected with ValueError; the argument is left unchanged
Not decided: circuits outside the model families (the per-gate construction is arity-generic; the
induction over circuit structure is argued in DESIGN.md, not mechanised).
"""
import itertools

from ..gates import X, kleene_gate
from ..pkgenv import Package
from ..refmodel import RefBlackBox, RefCircuit, build, free_nodes, simulate
from ..semantic import guarded, deep_circuits, one_gate_circuits, two_level_circuits

FILE = "tx.py"


def kleene_sim(c, assign):
    val = dict(assign)
    for n in c.graph.topo():
        if n in val:
            continue
        t = c.graph._node[n]["type"]
        val[n] = kleene_gate(t, [val[p] for p in c.graph._pred[n]])
    return val


@guarded
def check_ternary(c, t, mapping):
    if not isinstance(t, RefCircuit) or not isinstance(mapping, dict):
        return {"problem": "ternary() does not return (Circuit, dict)"}
    for n in c.nodes():
        if n not in t or t.type(n) != c.type(n) or t.fanin(n) != c.fanin(n):
            return {"problem": "binary rail differs from the original circuit", "node": n, "type": t.type(n) if n in t else None, "fanin": sorted(t.fanin(n)) if n in t else None}
        if n not in mapping:
            return {"problem": "node has no companion in mapping", "node": n}
    comp = [mapping[n] for n in c.nodes()]
    if len(set(comp)) != len(comp) or any(m in c.nodes() for m in comp) or any(m not in t for m in comp):
        return {"problem": "companion nodes are not distinct fresh nodes of the result", "mapping": {k: mapping[k] for k in sorted(mapping)}}
    ins = sorted(c.inputs())
    tf = set(free_nodes(t))
    want_free = set(ins) | {mapping[i] for i in ins}
    if tf != want_free:
        return {"problem": "free signals of the ternary circuit are not inputs + their companions", "free": sorted(tf), "expected": sorted(want_free)}
    for combo in itertools.product([(False, False), (True, False), (False, True), (True, True)], repeat=len(ins)):
        ka = {}
        ta = {}
        for i, (v, xf) in zip(ins, combo):
            ka[i] = X if xf else v
            ta[i] = v
            ta[mapping[i]] = xf
        kv = kleene_sim(c, ka)
        tv = simulate(t, ta)
        for n in c.nodes():
            isx = kv[n] == X
            if tv[mapping[n]] != isx:
                return {"problem": "companion differs from 'Kleene value is X'", "node": n, "inputs": {i: ("X" if xf else int(v)) for i, (v, xf) in zip(ins, combo)}, "companion": tv[mapping[n]], "kleene": "X" if isx else int(kv[n])}
            if not isx and tv[n] != kv[n]:
                return {"problem": "binary rail differs from the Kleene value although companion is 0", "node": n, "inputs": {i: ("X" if xf else int(v)) for i, (v, xf) in zip(ins, combo)}, "value": tv[n], "kleene": int(kv[n])}
    return None


def run(chk):
    repo = chk.repo
    chk.explanation = ("tx.ternary evaluated by the checker's evaluator over the reference Circuit model; the dual-rail model netlist is simulated for all (value, X-flag) input assignments "
                       "and compared node by node with Kleene evaluation of the original model circuit.")
    chk.assume("reference Circuit model semantics for add(..., uid/allow_redefinition/add_connected_nodes), uid, copy")
    from ..core import type_vocabulary
    from ..structural import dispatch_rule, vocabulary_rule

    vocabulary_rule(chk, repo, "C10.S.vocabulary", [(FILE, "ternary")])
    dispatch_rule(chk, repo, "C10.S.dispatch", FILE, "ternary", set(type_vocabulary(repo)["supported_types"]) - {"x", "bb_input", "bb_output"})
    P = Package(repo)
    fi = repo.func(FILE, "ternary")
    const_models = []
    for t, kc in (("and", "0"), ("nand", "0"), ("or", "1"), ("nor", "1"), ("and", "1"), ("or", "0"), ("xor", "1"), ("xnor", "0")):
        for extra in (["a"], ["a", "b"]):
            spec = {i: ("input", []) for i in extra}
            spec["k"] = (kc, [])
            spec["g"] = (t, extra + ["k"])
            spec["h"] = ("not", ["g"])
            const_models.append((f"{t}-with-const{kc}-{len(extra)}", build(spec, outputs=["h"])))
    # a parity gate over several constants in front of a gate that the folded value would control (n-ary xnor is NOT(parity)): a
    # constant-propagation pre-pass has to fold it as the library evaluates it
    for t in ("xor", "xnor"):
        for arity in (2, 3, 4, 5):
            for kc in ("0", "1"):
                spec = {"a": ("input", []), "b": ("input", [])}
                for i_ in range(arity):
                    spec[f"k{i_}"] = (kc, [])
                spec["p"] = (t, [f"k{i_}" for i_ in range(arity)])
                spec.update({"g1": ("and", ["p", "a"]), "g2": ("or", ["p", "b"]), "g3": ("nand", ["g1", "b"]), "g4": ("nor", ["g2", "a"]), "h": ("xor", ["g3", "g4"])})
                const_models.append((f"{t}-over-{arity}-const{kc}-in-front-of-controlled-gates", build(spec, outputs=["h", "g1", "g2"])))
    # (wide gates: an encoding may treat gates above some fan-in differently - 7 in the quick tier, 8 in the thorough one)
    wide_models = list(one_gate_circuits(max_arity=7 if chk.tier == "quick" else 8, types=["and", "nand", "or", "nor"]))
    wide_models = [(k, c) for k, c in wide_models if int(k[-1]) >= 4]
    name_models = []
    for order in (["a", "b", "g", "a_not", "h"], ["a", "b", "a_not", "g", "h"]):
        spec = {"a": ("input", []), "b": ("input", []), "g": ("nor", ["a", "b"]), "a_not": ("nand", ["a", "b"]), "h": ("and", ["a_not", "g"])}
        c = RefCircuit(name="m")
        for n_ in order:
            c.graph.add_node(n_, type=spec[n_][0], output=n_ == "h")
        for n_ in order:
            for f in spec[n_][1]:
                c.graph.add_edge(f, n_)
        name_models.append((f"net-named-like-a-helper::{'-'.join(order)}", c))
    for helper in ("a_is_1", "a_is_0", "g_x_in_fi", "g_1_not_in_fi", "a_not_x", "a_not_X", "a_X"):
        spec = {"a": ("input", []), "b": ("input", []), "g": ("or", ["a", "b"]), helper: ("not", ["b"]), "h": ("nand", ["g", helper, "a"])}
        name_models.append((f"net-named-{helper}", build(spec, outputs=["h"])))
    # a net whose companion name and its first eleven numbered variants are all taken by nets of the circuit itself, and a net with
    # fourteen or-type loads (the helper names then run past `_10`, where the name generator changes its stride)
    spec = {"a": ("input", []), "b": ("input", []), "a_X": ("and", ["a", "b"])}
    for i_ in range(11):
        spec[f"a_X_{i_}"] = (("or", "nand", "xor")[i_ % 3], ["a", "b"] if i_ % 2 else ["a_X", "b"])
    spec["h"] = ("xor", ["a_X_10", "a_X_3", "a"])
    name_models.append(("companion-name-and-eleven-numbered-variants-taken", build(spec, outputs=["h", "a_X_10"])))
    spec = {"p": ("input", []), "q": ("input", []), "r": ("input", [])}
    for i_ in range(14):
        spec[f"l{i_}"] = (("or", "nor")[i_ % 2], ["p", "q" if i_ % 3 else "r"])
    spec["h"] = ("xor", [f"l{i_}" for i_ in range(14)])
    name_models.append(("fourteen-or-type-loads-on-one-net", build(spec, outputs=["h"])))
    fams = const_models + name_models + wide_models + list(one_gate_circuits(max_arity=3)) + list(deep_circuits()) + list(two_level_circuits(limit=80 if chk.tier == "quick" else None))
    from ..corpus import corpus

    fams += [(f"corpus::{k}", c) for k, tags, c in corpus(chk.tier, exclude=("x",)) if len(c.inputs()) <= (4 if chk.tier == "quick" else 5)]
    # node iteration order is insertion order: every family member also with its nodes inserted sinks-first (a gate before
    # the inputs / constants that drive it)
    from ..semantic import reinserted

    fams += [(f"{k}@sinks-first", reinserted(c, "sinks-first")) for k, c in fams if (chk.tier == "thorough" or not k.startswith(("and", "or", "nand", "nor", "xor", "xnor", "t2::")))]
    # ... and in orders that are neither drivers-first nor loads-first (nodes added first and wired later, netlists listing gates out of order)
    fams += [(f"{k}@{mode_}", reinserted(c, mode_)) for mode_ in ("interleaved-a", "interleaved-b") for k, c in fams
             if "@" not in k and len(c.nodes()) >= 6 and not k.startswith(("and", "or", "nand", "nor", "xor", "xnor", "t2::"))]
    n = 0
    from ..pkgenv import FullStackCaller

    FS = FullStackCaller(repo)
    fs_runs = [(f"{k_}@full-stack", c_, FS) for k_, c_ in fams if k_ in ("reconv", "consts", "fanout", "in-is-out", "controlling-constants", "net-named-a_X", "companion-name-and-eleven-numbered-variants-taken", "fourteen-or-type-loads-on-one-net") or k_.startswith("corpus::") and "@" not in k_][:16]
    for kname, c, caller in [(k_, c_, P) for k_, c_ in fams] + fs_runs:
        snap = c._snapshot()
        r = caller.call(FILE, "ternary", c)
        n += 1
        key = f"ternary::{kname}"
        if r[0] == "raise" and r[1] == "ValueError" and "::name::" in kname:
            continue  # a clash with a helper-style name that is rejected loudly is not a wrong result
        if r[0] != "return" or not isinstance(r[1], tuple) or len(r[1]) != 2:
            chk.ob("C10.K.kleene", key, False, file=FILE, func="ternary", line=fi.node.lineno, fact={"result": str(r)[:200]})
            continue
        t, mapping = r[1]
        prob = check_ternary(c, t, mapping)
        if prob is None and c._snapshot() != snap:
            prob = {"problem": "argument modified"}
        if prob is None and t is c:
            prob = {"problem": "returned its argument"}
        chk.ob("C10.K.kleene", key, prob is None, file=FILE, func="ternary", line=fi.node.lineno, fact=prob or {"nodes": len(t.nodes()), "assignments": 4 ** len(c.inputs())},
               expect="mapping[n] == 1 iff Kleene(n) == X, else n == Kleene(n), for every (value, X-flag) input assignment")
    bb = RefBlackBox("ff", ["d"], ["q"])
    cbb = build({"a": ("input", []), "u.d": ("bb_input", ["a"]), "u.q": ("bb_output", []), "w": ("buf", ["u.q"])}, outputs=["w"], blackboxes={"u": bb})
    r = P.call(FILE, "ternary", cbb)
    chk.ob("C10.G.blackbox-guard", "ternary::circuit with a blackbox", r[0] == "raise" and r[1] == "ValueError", file=FILE, func="ternary", line=fi.node.lineno, fact={"result": str(r)[:120]}, expect="ValueError")
    from ..stale import circuit_snapshot, stale_state_rule
    from ..minieval import ModelRaise

    def _call(c):
        r = P.call(FILE, "ternary", c)
        if r[0] != "return":
            raise ModelRaise(r[1], r[2] if len(r) > 2 else "")
        return r[1]

    stale_state_rule(chk, "C10.H.no-stale-state", _call, circuit_snapshot, FILE, "ternary")
    chk.floor("ternary evaluations", n, 100)
