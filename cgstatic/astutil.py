"""Small AST helpers shared by the rule modules."""
import ast
import itertools

from .core import AnalysisError, ConstEnv, norm


def walk_no_nested(node):
    """ast.walk that does not descend into nested function/class definitions."""
    stack = [node]
    first = True
    while stack:
        n = stack.pop()
        if not first and isinstance(n, (ast.FunctionDef, ast.AsyncFunctionDef, ast.ClassDef, ast.Lambda)):
            continue
        first = False
        yield n
        stack.extend(ast.iter_child_nodes(n))


def calls_in(node, nested=False):
    it = ast.walk(node) if nested else walk_no_nested(node)
    return [n for n in it if isinstance(n, ast.Call)]


def call_name(call):
    """Dotted name of a call's callee: 'cg.tx.miter', 'self.connect', 'len'."""
    return dotted(call.func)


def dotted(node):
    parts = []
    while isinstance(node, ast.Attribute):
        parts.append(node.attr)
        node = node.value
    if isinstance(node, ast.Name):
        parts.append(node.id)
        return ".".join(reversed(parts))
    if isinstance(node, ast.Call):
        inner = dotted(node.func)
        if inner is None:
            return None
        parts.append(inner + "()")
        return ".".join(reversed(parts))
    if isinstance(node, ast.Subscript):
        inner = dotted(node.value)
        if inner is None:
            return None
        parts.append(inner + "[]")
        return ".".join(reversed(parts))
    return None


def method_name(call):
    if isinstance(call.func, ast.Attribute):
        return call.func.attr
    if isinstance(call.func, ast.Name):
        return call.func.id
    return None


def receiver(call):
    if isinstance(call.func, ast.Attribute):
        return call.func.value
    return None


def kwarg(call, name, pos=None, default=None):
    for k in call.keywords:
        if k.arg == name:
            return k.value
    if pos is not None and len(call.args) > pos:
        a = call.args[pos]
        if not isinstance(a, ast.Starred):
            return a
    return default


def is_const(node, value=None):
    if not isinstance(node, ast.Constant):
        return False
    return value is None or node.value == value


def const_true(node):
    return isinstance(node, ast.Constant) and node.value is True


def func_params(fn):
    a = fn.args
    return [x.arg for x in a.posonlyargs + a.args + a.kwonlyargs]


def param_default(fn, name):
    a = fn.args
    pos = a.posonlyargs + a.args
    defaults = [None] * (len(pos) - len(a.defaults)) + list(a.defaults)
    for p, d in zip(pos, defaults):
        if p.arg == name:
            return d
    for p, d in zip(a.kwonlyargs, a.kw_defaults):
        if p.arg == name:
            return d
    return None


def body_without_doc(fn):
    body = list(fn.body)
    if body and isinstance(body[0], ast.Expr) and isinstance(body[0].value, ast.Constant) and isinstance(body[0].value.value, str):
        body = body[1:]
    return body


def docstring_param_types(fn):
    """numpy-style docstring 'name : Type' pairs."""
    doc = ast.get_docstring(fn) or ""
    out = {}
    for line in doc.splitlines():
        s = line.strip()
        if ":" in s and not s.startswith(">>>"):
            name, _, typ = s.partition(":")
            name = name.strip()
            typ = typ.strip()
            if name.isidentifier() and typ:
                out.setdefault(name, typ)
    return out


def terminates(stmts):
    """True if the statement list always ends in raise/return/continue/break."""
    if not stmts:
        return False
    last = stmts[-1]
    if isinstance(last, (ast.Raise, ast.Return, ast.Continue, ast.Break)):
        return True
    if isinstance(last, ast.If):
        return bool(last.orelse) and terminates(last.body) and terminates(last.orelse)
    return False


def contains_raise(stmts, exc=None):
    for st in stmts:
        for n in walk_no_nested(st):
            if isinstance(n, ast.Raise):
                if exc is None:
                    return True
                if raise_exc_name(n) == exc:
                    return True
    return False


def raise_exc_name(r):
    e = r.exc
    if e is None:
        return None
    if isinstance(e, ast.Call):
        e = e.func
    d = dotted(e)
    return d.split(".")[-1] if d else None


def parents_map(root):
    pm = {}
    for n in ast.walk(root):
        for ch in ast.iter_child_nodes(n):
            pm[ch] = n
    return pm


def enclosing(node, pm, kinds):
    out = []
    n = pm.get(node)
    while n is not None:
        if isinstance(n, kinds):
            out.append(n)
        n = pm.get(n)
    return out


def stmt_of(node, pm):
    n = node
    while n is not None and not isinstance(n, ast.stmt):
        n = pm.get(n)
    return n


def fstring_template(node):
    """Render an f-string / concat expression as a template string with {expr} holes.

    Returns None when the node is not a string-building expression.
    """
    if isinstance(node, ast.Constant) and isinstance(node.value, str):
        return node.value.replace("{", "{{").replace("}", "}}")
    if isinstance(node, ast.JoinedStr):
        out = []
        for v in node.values:
            if isinstance(v, ast.Constant):
                out.append(str(v.value).replace("{", "{{").replace("}", "}}"))
            elif isinstance(v, ast.FormattedValue):
                out.append("{" + norm(v.value) + "}")
            else:
                return None
        return "".join(out)
    if isinstance(node, ast.BinOp) and isinstance(node.op, ast.Add):
        a = fstring_template(node.left)
        b = fstring_template(node.right)
        if a is None and b is None:
            return None
        if a is None:
            a = "{" + norm(node.left) + "}"
        if b is None:
            b = "{" + norm(node.right) + "}"
        return a + b
    return None


def has_literal_part(node):
    """String expression with at least one literal fragment and one hole, or a pure literal."""
    if isinstance(node, ast.Constant) and isinstance(node.value, str):
        return True
    if isinstance(node, ast.JoinedStr):
        return any(isinstance(v, ast.Constant) and v.value for v in node.values)
    if isinstance(node, ast.BinOp) and isinstance(node.op, ast.Add):
        return has_literal_part(node.left) or has_literal_part(node.right)
    return False


def local_assignments(fn):
    """name -> list of value nodes assigned anywhere in fn (simple Name targets)."""
    out = {}
    for n in walk_no_nested(fn):
        if isinstance(n, ast.Assign):
            for t in n.targets:
                if isinstance(t, ast.Name):
                    out.setdefault(t.id, []).append(n.value)
        elif isinstance(n, ast.AnnAssign) and isinstance(n.target, ast.Name) and n.value is not None:
            out.setdefault(n.target.id, []).append(n.value)
        elif isinstance(n, ast.NamedExpr) and isinstance(n.target, ast.Name):
            out.setdefault(n.target.id, []).append(n.value)
    return out


# ---------------------------------------------------------------------------
# tiny arithmetic / boolean evaluator over AST with symbolic atoms
# ---------------------------------------------------------------------------
class Unknown(Exception):
    pass


def eval_expr(node, atom):
    """Evaluate an expression AST; `atom(node)` returns a value for leaves or raises Unknown."""
    try:
        return atom(node)
    except Unknown:
        pass
    if isinstance(node, ast.Constant):
        return node.value
    if isinstance(node, ast.BinOp):
        a = eval_expr(node.left, atom)
        b = eval_expr(node.right, atom)
        op = node.op
        if isinstance(op, ast.Add):
            return a + b
        if isinstance(op, ast.Sub):
            return a - b
        if isinstance(op, ast.Mult):
            return a * b
        if isinstance(op, ast.BitOr):
            return a | b
        if isinstance(op, ast.BitAnd):
            return a & b
        if isinstance(op, ast.Pow):
            return a**b
        if isinstance(op, ast.FloorDiv):
            return a // b
        raise Unknown(norm(node))
    if isinstance(node, ast.UnaryOp):
        v = eval_expr(node.operand, atom)
        if isinstance(node.op, ast.Not):
            return not v
        if isinstance(node.op, ast.USub):
            return -v
        raise Unknown(norm(node))
    if isinstance(node, ast.BoolOp):
        vals = [eval_expr(v, atom) for v in node.values]
        if isinstance(node.op, ast.And):
            r = True
            for v in vals:
                r = r and v
            return r
        r = False
        for v in vals:
            r = r or v
        return r
    if isinstance(node, ast.Compare):
        left = eval_expr(node.left, atom)
        for op, comp in zip(node.ops, node.comparators):
            right = eval_expr(comp, atom)
            if isinstance(op, ast.Gt):
                ok = left > right
            elif isinstance(op, ast.GtE):
                ok = left >= right
            elif isinstance(op, ast.Lt):
                ok = left < right
            elif isinstance(op, ast.LtE):
                ok = left <= right
            elif isinstance(op, ast.Eq):
                ok = left == right
            elif isinstance(op, ast.NotEq):
                ok = left != right
            elif isinstance(op, ast.In):
                ok = left in right
            elif isinstance(op, ast.NotIn):
                ok = left not in right
            elif isinstance(op, ast.Is):
                ok = left is right
            elif isinstance(op, ast.IsNot):
                ok = left is not right
            else:
                raise Unknown(norm(node))
            if not ok:
                return False
            left = right
        return True
    if isinstance(node, ast.IfExp):
        return eval_expr(node.body, atom) if eval_expr(node.test, atom) else eval_expr(node.orelse, atom)
    if isinstance(node, (ast.List, ast.Tuple)):
        return [eval_expr(e, atom) for e in node.elts]
    if isinstance(node, ast.Set):
        return set(eval_expr(e, atom) for e in node.elts)
    raise Unknown(norm(node))
