import argparse
import importlib
import json
import os
import sys
import traceback

from .core import VERIF, AnalysisError, Check, Repo, finish


def main(argv=None):
    ap = argparse.ArgumentParser(prog="check")
    ap.add_argument("pid")
    ap.add_argument("--tier", default=os.environ.get("VERIF_TIER") or "quick", choices=["quick", "thorough"])
    ap.add_argument("--replay")
    ap.add_argument("--repo", default=None)
    ap.add_argument("--no-evidence", action="store_true")
    ap.add_argument("--evidence-dir", default=None)
    args = ap.parse_args(argv)
    pid = args.pid.upper()
    seed = int(os.environ.get("VERIF_SEED", "0") or 0)
    try:
        try:
            mod = importlib.import_module(f"cgstatic.rules.{pid.lower()}")
        except ModuleNotFoundError:
            print(f"ANALYSIS-ERROR property={pid} no checker for this property")
            return 2
        repo = Repo(args.repo)
        chk = Check(pid, repo, args.tier, seed)
        mod.run(chk)
        # shared structural rule: the property's own functions do not recurse once per step along the circuit (see structural.py)
        from .structural import PATH_RECURSION_ANCHORS, path_recursion_rule

        if pid in PATH_RECURSION_ANCHORS:
            path_recursion_rule(chk, repo, f"{pid}.R.call-depth", PATH_RECURSION_ANCHORS[pid])
        if args.tier == "thorough" and not args.replay and args.repo is None and not os.environ.get("CGSTATIC_NO_SELFTEST"):
            # test the checker both ways on scratch copies (tests the *checker*, never decides the property)
            import subprocess
            import tempfile

            with tempfile.NamedTemporaryFile(suffix=".json", delete=False) as tf:
                tmpjson = tf.name
            try:
                env = dict(os.environ, CGSTATIC_NO_SELFTEST="1", VERIF_TIER="quick")
                p = subprocess.run([sys.executable, str(VERIF / "selftest" / "run.py"), pid, "--json", tmpjson], capture_output=True, text=True, env=env, cwd=str(VERIF))
                res = json.load(open(tmpjson)) if os.path.getsize(tmpjson) else None
            finally:
                os.unlink(tmpjson)
            if res is not None:
                chk.extra["selftest"] = {"must_fire": f"{res['fire_ok']}/{res['fire_total']}", "must_silent": f"{res['silent_ok']}/{res['silent_total']}",
                                         "failures": [f["id"] for f in res["failures"]]}
                print(f"[{pid}] selftest of the checker on scratch variants: must_fire {res['fire_ok']}/{res['fire_total']}, must_silent {res['silent_ok']}/{res['silent_total']}")
                bad_silent = [f for f in res["failures"] if f["expect"] == "silent"]
                if bad_silent:
                    print(f"ANALYSIS-ERROR property={pid} the checker raises an alarm on behaviour-preserving variant(s) {[f['id'] for f in bad_silent]} - checker bug, run blocked")
                    return 2
        if args.tier == "thorough" and not args.replay and args.repo is None and not os.environ.get("CGSTATIC_NO_SELFTEST"):
            # set-iteration orders of strings depend on the hash seed: re-run the quick obligations under other seeds
            import subprocess

            seeds_ok = []
            for hs in ("1", "2", "3"):
                env = dict(os.environ, CGSTATIC_HASHSEED=hs, CGSTATIC_NO_SELFTEST="1", VERIF_TIER="quick")
                p = subprocess.run([str(VERIF / "check"), pid, "--tier", "quick", "--no-evidence", "--evidence-dir", f"/tmp/cgstatic-hs-{pid}-{hs}"], capture_output=True, text=True, env=env, cwd=str(VERIF))
                subprocess.run(["rm", "-rf", f"/tmp/cgstatic-hs-{pid}-{hs}"])
                if p.returncode == 0:
                    seeds_ok.append(hs)
                else:
                    first = next((l for l in p.stdout.splitlines() if " violated " in l or l.startswith("ANALYSIS-ERROR")), "")
                    chk.ob(f"{pid}.H.hash-order", f"hash seed {hs}::{first[:140]}", False, fact={"hash_seed": hs, "exit": p.returncode, "first_report": first[:300]},
                           expect="the same verdict under every set-iteration order")
            chk.extra["hash_seeds_explored"] = ["0"] + seeds_ok
            print(f"[{pid}] set-iteration orders: quick obligations re-evaluated under hash seeds 1,2,3 -> ok for {seeds_ok}")
        flt = None
        if args.replay:
            rp = json.load(open(args.replay))
            flt = (rp["rule"], rp["key"])
            print(f"[{pid}] replaying obligation {flt[0]} :: {flt[1]}")
        rc = finish(chk, replay_filter=flt, write_evidence=not args.no_evidence and not args.replay, evidence_dir=args.evidence_dir)
        if args.tier == "thorough" and rc == 0 and hasattr(mod, "thorough_extra"):
            rc = mod.thorough_extra(chk) or 0
        return rc
    except AnalysisError as e:
        print(f"ANALYSIS-ERROR property={pid} {e}")
        return 2
    except Exception:
        traceback.print_exc()
        print(f"ANALYSIS-ERROR property={pid} internal error in the checker (see traceback)")
        return 2


if __name__ == "__main__":
    sys.exit(main())
