"""
Purely structural (S) rules shared by several properties.  Nothing here evaluates repository code:
facts are read off the syntax tree.  A rule that does not recognise the shape of the code it is
looking at records a *note* and abstains (the behaviour is then decided by the property's other
rules) - it never guesses and never raises an alarm on an unrecognised but correct shape.
"""
import ast

from .astutil import dotted, fstring_template, has_literal_part, kwarg, method_name, parents_map, enclosing, walk_no_nested
from .core import AnalysisError, norm, type_vocabulary
from .typetables import collect_type_tests


# ---------------------------------------------------------------------------
# E3-V  vocabulary: every literal a node type is compared with is a supported type
# ---------------------------------------------------------------------------
def vocabulary_rule(chk, repo, rule, funcs):
    """funcs: list of (file, qualname)."""
    sup = set(type_vocabulary(repo)["supported_types"])
    n = 0
    for rel, qual in funcs:
        if not repo.has_func(rel, qual):
            raise AnalysisError(f"anchor vanished: function {qual}", rel)
        fi = repo.func(rel, qual)
        for t in collect_type_tests(repo, fi):
            for lit in t.lits:
                n += 1
                chk.ob(rule, f"{rel}::{qual}::{t.subject_text or 'filter_type'}::{lit}", lit in sup, file=rel, func=qual, line=t.line,
                       fact={"literal": lit, "comparison": norm(t.node)[:100]}, expect="a member of circuit.supported_types (a misspelt type literal makes the branch dead)")
    return n


# ---------------------------------------------------------------------------
# E4  dispatch exhaustiveness of an if/elif chain on a node type
# ---------------------------------------------------------------------------
def type_dispatch_chains(repo, fi):
    """Yield (if_node, [(literal-set, body)], else_body) for if/elif chains whose tests are type tests."""
    tests = collect_type_tests(repo, fi)
    by_node = {}
    for t in tests:
        by_node.setdefault(id(t.node), t)
    seen = set()
    for n in walk_no_nested(fi.node):
        if isinstance(n, ast.If) and id(n) not in seen:
            chain = []
            cur = n
            ok = True
            while True:
                seen.add(id(cur))
                lits = None
                # the test may be a bare type test or `typetest and ...`
                cands = [cur.test] + (list(cur.test.values) if isinstance(cur.test, ast.BoolOp) and isinstance(cur.test.op, ast.And) else [])
                extra_conj = isinstance(cur.test, ast.BoolOp)
                for c in cands:
                    t = by_node.get(id(c))
                    if t is not None and not t.negated and t.kind in ("in", "eq"):
                        lits = (set(t.lits), extra_conj)
                if lits is None:
                    ok = False
                    break
                chain.append((lits[0], lits[1], cur.body))
                if len(cur.orelse) == 1 and isinstance(cur.orelse[0], ast.If):
                    cur = cur.orelse[0]
                    continue
                else_body = cur.orelse
                break
            if ok and len(chain) >= 3:
                yield n, chain, else_body


def dispatch_rule(chk, repo, rule, rel, qual, domain, min_branches=4):
    """Every type of `domain` is handled by an unconditional branch of the main type dispatch of the
    function, and the chain ends in an explicit raise (no silent fall-through)."""
    fi = repo.func(rel, qual)
    best = None
    for node, chain, else_body in type_dispatch_chains(repo, fi):
        if best is None or len(chain) > len(best[1]):
            best = (node, chain, else_body)
    if best is None or len(best[1]) < min_branches:
        chk.note(f"{rule}: no if/elif type dispatch recognised in {qual}; structural exhaustiveness rule abstains")
        return False
    node, chain, else_body = best
    handled = set()
    for lits, conditional, body in chain:
        if not conditional:
            handled |= lits
    ends_in_raise = bool(else_body) and any(isinstance(s, ast.Raise) for s in else_body)
    chk.ob(rule + ".no-silent-fallthrough", f"{rel}::{qual}::dispatch else", ends_in_raise, file=rel, func=qual, line=node.lineno,
           fact={"else_branch": norm(else_body)[:80] if else_body else None}, expect="the type dispatch ends in `else: raise ...`")
    for t in sorted(domain):
        chk.ob(rule + ".handled", f"{rel}::{qual}::{t}", t in handled, file=rel, func=qual, line=node.lineno,
               fact={"type": t, "handled_types": sorted(handled)}, expect="a branch of the dispatch names this type")
    return True


# ---------------------------------------------------------------------------
# name taint: string-built names flowing into IDPool.id (C01.N, static version)
# ---------------------------------------------------------------------------
def idpool_string_key_rule(chk, repo, rule, rel, qual):
    fi = repo.func(rel, qual)
    fn = fi.node
    nested = {n.name: n for n in ast.walk(fn) if isinstance(n, ast.FunctionDef) and n is not fn}
    tainted = {}  # scope name -> set of local names

    def is_strbuild(e):
        return isinstance(e, (ast.JoinedStr,)) or (isinstance(e, ast.BinOp) and isinstance(e.op, ast.Add) and has_literal_part(e)) or (isinstance(e, ast.Constant) and isinstance(e.value, str))

    scopes = {"": fn}
    scopes.update(nested)
    for s in scopes:
        tainted[s] = set()
    changed = True
    while changed:
        changed = False
        for sname, sfn in scopes.items():
            body_nodes = list(walk_no_nested(sfn)) if sname == "" else list(ast.walk(sfn))
            for n in body_nodes:
                if isinstance(n, ast.Assign) and len(n.targets) == 1 and isinstance(n.targets[0], ast.Name):
                    v = n.value
                    if is_strbuild(v) and not (isinstance(v, ast.Constant)) or (isinstance(v, ast.Name) and v.id in tainted[sname]):
                        if n.targets[0].id not in tainted[sname]:
                            tainted[sname].add(n.targets[0].id)
                            changed = True
                if isinstance(n, ast.Call) and isinstance(n.func, ast.Name) and n.func.id in nested:
                    params = [a.arg for a in nested[n.func.id].args.args]
                    for i, a in enumerate(n.args):
                        if i < len(params) and ((isinstance(a, ast.Name) and a.id in tainted[sname]) or (is_strbuild(a) and not isinstance(a, ast.Constant))):
                            if params[i] not in tainted[n.func.id]:
                                tainted[n.func.id].add(params[i])
                                changed = True
    sinks = 0
    bad = []
    id_aliases = {t.id for n in ast.walk(fn) if isinstance(n, ast.Assign) and isinstance(n.value, ast.Attribute) and n.value.attr == "id" for t in n.targets if isinstance(t, ast.Name)}
    for sname, sfn in scopes.items():
        body_nodes = list(walk_no_nested(sfn)) if sname == "" else list(ast.walk(sfn))
        for n in body_nodes:
            is_id_call = isinstance(n, ast.Call) and len(n.args) == 1 and ((isinstance(n.func, ast.Attribute) and n.func.attr == "id") or (isinstance(n.func, ast.Name) and n.func.id in id_aliases))
            if is_id_call:
                sinks += 1
                a = n.args[0]
                if (isinstance(a, ast.Name) and a.id in tainted[sname]) or (is_strbuild(a) and not isinstance(a, ast.Constant)):
                    bad.append((n.lineno, norm(a)))
    seen = set()
    for line, text in bad:
        if text in seen:
            continue
        seen.add(text)
        chk.ob(rule, f"{rel}::{qual}::string-built IDPool key::{text}", False, file=rel, func=qual, line=line, fact={"key_expression": text},
               expect="auxiliary IDPool keys are not strings built from node names (they share the key space with node names and IDPool.id merges equal keys silently)")
    if not bad:
        chk.ob(rule, f"{rel}::{qual}::no string-built IDPool key", True, file=rel, func=qual, line=fn.lineno, fact={"id_call_sites": sinks})
    return sinks


# ---------------------------------------------------------------------------
# E10  reflexive-closure discipline
# ---------------------------------------------------------------------------
CLOSURE_CALLS = {"transitive_fanin", "transitive_fanout", "ancestors", "descendants"}


def closure_discipline_rule(chk, repo, rule, funcs, exceptions):
    """A proper closure (transitive_fanin/out, ancestors/descendants) that is intersected or membership-tested
    must have been unioned with its seed, or the membership test must be accompanied by a test on the seed.

    exceptions: {(file, qual): reason}."""
    n_sites = 0
    for rel, qual in funcs:
        fi = repo.func(rel, qual)
        fn = fi.node
        pm = parents_map(fn)
        # variables bound to a bare closure call
        closure_vars = {}
        for n in walk_no_nested(fn):
            if isinstance(n, ast.Assign) and len(n.targets) == 1 and isinstance(n.targets[0], ast.Name) and isinstance(n.value, ast.Call) and method_name(n.value) in CLOSURE_CALLS:
                closure_vars[n.targets[0].id] = n.value

        # a variable that is extended in place (x.add(seed) / x.update(..) / x |= ..) or rebound is no longer a bare closure
        for n in walk_no_nested(fn):
            if isinstance(n, ast.Call) and isinstance(n.func, ast.Attribute) and isinstance(n.func.value, ast.Name) and n.func.attr in ("add", "update") and n.func.value.id in closure_vars:
                closure_vars.pop(n.func.value.id, None)
            if isinstance(n, ast.AugAssign) and isinstance(n.target, ast.Name) and n.target.id in closure_vars:
                closure_vars.pop(n.target.id, None)
        counts = {}
        for n in walk_no_nested(fn):
            if isinstance(n, ast.Assign):
                for t in n.targets:
                    if isinstance(t, ast.Name):
                        counts[t.id] = counts.get(t.id, 0) + 1
        for name in [k for k in closure_vars if counts.get(k, 0) > 1]:
            closure_vars.pop(name)

        def is_closure_expr(e):
            if isinstance(e, ast.Call) and method_name(e) in CLOSURE_CALLS:
                return e
            if isinstance(e, ast.Name) and e.id in closure_vars:
                return closure_vars[e.id]
            return None

        for n in walk_no_nested(fn):
            uses = []
            if isinstance(n, ast.BinOp) and isinstance(n.op, ast.BitAnd):
                for side in (n.left, n.right):
                    c = is_closure_expr(side)
                    if c is not None:
                        uses.append(("intersection", c, n))
            if isinstance(n, ast.Compare) and len(n.ops) == 1 and isinstance(n.ops[0], (ast.In, ast.NotIn)):
                c = is_closure_expr(n.comparators[0])
                if c is not None:
                    uses.append(("membership", c, n))
            for kind, call, node in uses:
                n_sites += 1
                key = f"{rel}::{qual}::{kind} on proper closure::{norm(node)[:70]}"
                if (rel, qual) in exceptions:
                    chk.ob(rule, key, True, file=rel, func=qual, line=node.lineno, fact={"exception": exceptions[(rel, qual)]}, nontrivial=False)
                    continue
                ok = False
                if kind == "membership":
                    # `x not in fi and x not in seed` / `x in fi or x in seed`
                    par = pm.get(node)
                    if isinstance(par, ast.BoolOp):
                        sib = [v for v in par.values if v is not node and isinstance(v, ast.Compare) and len(v.ops) == 1 and isinstance(v.ops[0], (ast.In, ast.NotIn, ast.Eq, ast.NotEq))
                               and norm(v.left) == norm(node.left)]
                        ok = bool(sib)
                chk.ob(rule, key, ok, file=rel, func=qual, line=node.lineno, fact={"closure_call": norm(call)[:60], "use": norm(node)[:80]},
                       expect="union the closure with its seed first (`{n} | ...`) or test the seed as well: transitive_fanin/out and ancestors/descendants are *proper* closures")
    return n_sites


# ---------------------------------------------------------------------------
# iteration-index rule (C09 / C18): `X_{i-1}` drives `Y_{i}`
# ---------------------------------------------------------------------------
def _index_exprs(node):
    """FormattedValue expressions of an f-string that mention an arithmetic on a loop variable or a bare name."""
    out = []
    if isinstance(node, ast.JoinedStr):
        for v in node.values:
            if isinstance(v, ast.FormattedValue):
                out.append(v.value)
    # the same index in a table of per-iteration names: `io_map[k][itr - 1]`
    while isinstance(node, ast.Subscript):
        out.append(node.slice)
        node = node.value
    return out


def chain_index_rule(chk, repo, rule, rel, qual, loop_var_hint):
    """Find `R.connect(f"...{i-1}...", f"...{i}...")` and check source index + 1 == destination index."""
    fi = repo.func(rel, qual)
    found = 0
    for n in walk_no_nested(fi.node):
        if isinstance(n, ast.Call) and method_name(n) == "connect" and len(n.args) == 2:
            src, dst = n.args
            si = [e for e in _index_exprs(src)]
            di = [e for e in _index_exprs(dst)]

            def idx(exprs):
                for e in exprs:
                    if isinstance(e, ast.Name) and e.id == loop_var_hint:
                        return 0
                    if isinstance(e, ast.BinOp) and isinstance(e.left, ast.Name) and e.left.id == loop_var_hint and isinstance(e.right, ast.Constant) and isinstance(e.right.value, int):
                        if isinstance(e.op, ast.Sub):
                            return -e.right.value
                        if isinstance(e.op, ast.Add):
                            return e.right.value
                return None

            a, b = idx(si), idx(di)
            if a is None or b is None or (a == 0 and b == 0 and not any(isinstance(e, ast.BinOp) for e in si + di)):
                if a is None or b is None:
                    continue
            found += 1
            chk.ob(rule, f"{rel}::{qual}::{norm(n)[:80]}", a + 1 == b, file=rel, func=qual, line=n.lineno, fact={"source_index_offset": a, "destination_index_offset": b},
                   expect=f"the value of iteration {loop_var_hint}-1 drives iteration {loop_var_hint}")
    if not found:
        chk.note(f"{rule}: no `connect(f'..{{{loop_var_hint}-1}}..', f'..{{{loop_var_hint}}}..')` shape recognised in {qual}; structural index rule abstains")
    return found


# ---------------------------------------------------------------------------
# C08: blocking clause of model_count (def-use shape)
# ---------------------------------------------------------------------------
def blocking_clause_rule(chk, repo, rule, rel="sat.py", qual="model_count"):
    from .astutil import func_params, local_assignments

    fi = repo.func(rel, qual)
    fn = fi.node
    cparam = func_params(fn)[0]
    assigns = local_assignments(fn)
    call = None
    for n in walk_no_nested(fn):
        if isinstance(n, ast.Call) and method_name(n) == "add_clause" and len(n.args) == 1:
            call = n
    if call is None or not isinstance(call.args[0], ast.ListComp) or len(call.args[0].generators) != 1:
        chk.note(f"{rule}: no `solver.add_clause([... for n in X])` shape in {qual}; structural rule abstains")
        return False
    comp = call.args[0]
    gen = comp.generators[0]
    it = gen.iter
    src = it
    if isinstance(it, ast.Name) and it.id in assigns and len(assigns[it.id]) == 1:
        src = assigns[it.id][0]
    # judged only when the source is recognisably a query on the counted circuit (c.startpoints() - or c.inputs(), c.nodes() ...);
    # a hoisted list of positions, a helper or a generator is another way of writing it that this rule cannot read: it abstains
    # and C08.B.value decides
    is_query = isinstance(src, ast.Call) and (dotted(src.func) or "").startswith(f"{cparam}.") and not src.args and not src.keywords
    if is_query:
        ok_iter = dotted(src.func) == f"{cparam}.startpoints" and not gen.ifs
        chk.ob(rule + ".ranges-over-startpoints", f"{rel}::{qual}::blocking clause iterates", ok_iter, file=rel, func=qual, line=call.lineno, fact={"iterates_over": norm(src)[:60], "filtered": bool(gen.ifs)},
               expect=f"{cparam}.startpoints() of the counted circuit (inputs and blackbox outputs), unfiltered")
    else:
        chk.note(f"{rule}.ranges-over-startpoints: the blocking clause iterates over `{norm(src)[:50]}`, not directly over a query on the circuit; abstains (C08.B.value decides)")
    elt = comp.elt
    tgt = gen.target.id if isinstance(gen.target, ast.Name) else None
    neg = isinstance(elt, ast.UnaryOp) and isinstance(elt.op, ast.USub)
    sub = elt.operand if neg else elt
    idx_ok = False
    model_ok = False
    if isinstance(sub, ast.Subscript):
        sl = sub.slice
        idx_ok = isinstance(sl, ast.BinOp) and isinstance(sl.op, ast.Sub) and isinstance(sl.right, ast.Constant) and sl.right.value == 1 and isinstance(sl.left, ast.Call) \
            and method_name(sl.left) == "id" and len(sl.left.args) == 1 and isinstance(sl.left.args[0], ast.Name) and sl.left.args[0].id == tgt
        mv = sub.value
        if isinstance(mv, ast.Name) and mv.id in assigns:
            model_ok = any(isinstance(v, ast.Call) and method_name(v) == "get_model" for v in assigns[mv.id])
    # judged only when the element is recognisably `[-]model[<arithmetic on variables.id(n)>]`
    has_id_call = isinstance(sub, ast.Subscript) and any(isinstance(x, ast.Call) and method_name(x) == "id" for x in ast.walk(sub.slice))
    if has_id_call and model_ok:
        chk.ob(rule + ".negated-model-literal", f"{rel}::{qual}::blocking literal", neg and idx_ok, file=rel, func=qual, line=call.lineno,
               fact={"element": norm(elt)[:80], "negated": neg, "index_is_id_minus_1": idx_ok, "from_get_model": model_ok}, expect="-model[variables.id(n) - 1] with model = solver.get_model()")
    else:
        chk.note(f"{rule}.negated-model-literal: blocking literal `{norm(elt)[:50]}` is not of the form model[variables.id(n) - 1]; abstains (C08.B.value decides)")
    return True


# ---------------------------------------------------------------------------
# C04: miter construction template + gate algebra
# ---------------------------------------------------------------------------
def miter_template_rule(chk, repo, rule, rel="tx.py", qual="miter"):
    from .astutil import func_params
    from .gates import bool_gate
    import itertools

    fi = repo.func(rel, qual)
    fn = fi.node
    params = func_params(fn)
    subs = []
    adds = []
    for n in walk_no_nested(fn):
        if isinstance(n, ast.Call) and method_name(n) == "add_subcircuit" and len(n.args) >= 2 and isinstance(n.args[1], ast.Constant):
            subs.append((norm(n.args[0]), n.args[1].value, n))
        if isinstance(n, ast.Call) and method_name(n) == "add" and len(n.args) >= 2:
            adds.append(n)
    if len(subs) != 2:
        chk.note(f"{rule}: expected two add_subcircuit(<circuit>, '<prefix>') calls in {qual}; structural template rule abstains")
        return False
    (a0, p0, n0), (a1, p1, n1) = subs
    chk.ob(rule + ".two-copies", f"{rel}::{qual}::copies", a0 != a1 and p0 != p1 and {a0, a1} <= set(params), file=rel, func=qual, line=n0.lineno,
           fact={"copies": [(a0, p0), (a1, p1)]}, expect="the two circuit parameters instantiated under two distinct prefixes")
    pm = parents_map(fn)
    comparator = tie = collector = empty_arm = None
    ambiguous = False
    for a in adds:
        loops = enclosing(a, pm, (ast.For,))
        tl = a.args[1]
        fin = kwarg(a, "fanin", 2)
        fout = kwarg(a, "fanout", 3)
        if loops and isinstance(tl, ast.Constant) and tl.value == "input" and fout is not None:
            tie = (a, fout, loops[0])
        elif loops and fin is not None and isinstance(tl, ast.Constant):
            comparator = (a, tl.value, fin, fout, loops[0])
        elif not loops and kwarg(a, "output", 4) is not None:
            guards = [g for g in enclosing(a, pm, (ast.If,)) if isinstance(g.test, ast.UnaryOp) and isinstance(g.test.op, ast.Not)]
            if guards and isinstance(tl, ast.Constant):
                empty_arm = (a, tl)  # `if not endpoints: m.add("sat", "0", output=True)`: nothing compared
            elif collector is None:
                collector = (a, tl)
            else:
                ambiguous = True
    if not (comparator and tie and collector) or ambiguous:
        chk.note(f"{rule}: tie / comparator / collector adds not recognised in {qual}; structural template rule abstains")
        return False
    if empty_arm is not None:
        chk.ob(rule + ".gate-algebra", f"{rel}::{qual}::collector without endpoints", empty_arm[1].value == "0", file=rel, func=qual, line=empty_arm[0].lineno,
               fact={"collector_type_when_nothing_is_compared": empty_arm[1].value}, expect="constant 0: with nothing compared nothing differs")

    def prefixes_in(listnode, loopvar):
        """(recognised, prefixes): recognised only for a literal list of f-strings '<prefix>_{loopvar}' over the two copy
        prefixes - any other way of naming the images (a helper, a hoisted tuple of names) is not judged here."""
        out = set()
        if not isinstance(listnode, (ast.List, ast.Tuple)) or not listnode.elts:
            return False, out
        for e in listnode.elts:
            t = fstring_template(e)
            hit = [p for p in (p0, p1) if t == f"{p}_{{{loopvar}}}"]
            if not hit:
                return False, out
            out.add(hit[0])
        return True, out

    lv = tie[2].target.id if isinstance(tie[2].target, ast.Name) else None
    rec, pf = prefixes_in(tie[1], lv)
    if rec:
        chk.ob(rule + ".tie-feeds-both-copies", f"{rel}::{qual}::tie", pf == {p0, p1}, file=rel, func=qual, line=tie[0].lineno,
               fact={"fanout": norm(tie[1])[:80]}, expect=f"each tied input drives its image in both copies ({p0}_n and {p1}_n)")
    else:
        chk.note(f"{rule}.tie-feeds-both-copies: fan-out of the tie input is not a literal list of '<prefix>_{{n}}' names; abstains (C04.F decides)")
    lv = comparator[4].target.id if isinstance(comparator[4].target, ast.Name) else None
    rec, pf = prefixes_in(comparator[2], lv)
    if rec:
        chk.ob(rule + ".comparator-sees-both-copies", f"{rel}::{qual}::comparator", pf == {p0, p1}, file=rel, func=qual, line=comparator[0].lineno,
               fact={"fanin": norm(comparator[2])[:80]}, expect=f"each comparator reads the endpoint's image in both copies")
    else:
        chk.note(f"{rule}.comparator-sees-both-copies: fan-in of the comparator is not a literal list of '<prefix>_{{n}}' names; abstains (C04.F decides)")
    # gate algebra
    ctype = comparator[1]
    tl = collector[1]
    arms = {}
    if isinstance(tl, ast.Constant):
        arms = {1: tl.value, 2: tl.value, 3: tl.value}
    elif isinstance(tl, ast.IfExp) and isinstance(tl.body, ast.Constant) and isinstance(tl.orelse, ast.Constant) and isinstance(tl.test, ast.Compare) and len(tl.test.ops) == 1 \
            and isinstance(tl.test.comparators[0], ast.Constant) and isinstance(tl.test.left, ast.Call) and dotted(tl.test.left.func) == "len":
        op, k0 = tl.test.ops[0], tl.test.comparators[0].value
        for k in (1, 2, 3):
            cond = (k > k0) if isinstance(op, ast.Gt) else (k >= k0) if isinstance(op, ast.GtE) else (k < k0) if isinstance(op, ast.Lt) else (k <= k0) if isinstance(op, ast.LtE) else (k == k0) if isinstance(op, ast.Eq) else None
            if cond is None:
                arms = {}
                break
            arms[k] = tl.body.value if cond else tl.orelse.value
    if not arms:
        chk.note(f"{rule}: collector type expression not recognised; gate-algebra rule abstains")
        return True
    bad = None
    for k, col in arms.items():
        for bits in itertools.product([False, True], repeat=2 * k):
            xs, ys = bits[:k], bits[k:]
            try:
                got = bool_gate(col, [bool_gate(ctype, [x, y]) for x, y in zip(xs, ys)])
            except (ValueError, TypeError):
                got = None
            want = any(x != y for x, y in zip(xs, ys))
            if got != want:
                bad = {"endpoints": k, "comparator": ctype, "collector": col, "copy0": xs, "copy1": ys, "sat": got, "expected": want}
                break
        if bad:
            break
    chk.ob(rule + ".gate-algebra", f"{rel}::{qual}::collector(comparator(...))", bad is None, file=rel, func=qual, line=collector[0].lineno,
           fact=bad or {"comparator": ctype, "collector_by_endpoint_count": arms}, expect="collector over comparators == 'some endpoint differs' for 1, 2 and 3 endpoints")
    return True


# ---- recursion along the structure of the input ----------------------------------------------------------------------
_NEIGHBOUR_WORDS = {"fanin", "fanout", "predecessors", "successors", "pred", "succ", "adj", "_pred", "_succ", "_adj", "neighbors", "in_edges", "out_edges", "edges",
                    "transitive_fanin", "transitive_fanout", "ancestors", "descendants"}


def path_recursion_rule(chk, repo, rule, funcs):
    """
    `funcs`: [(file, qualname)].  For each function (and the functions nested in it): a call to itself whose argument comes from a
    loop / comprehension over the *neighbours* of a node (fanin / fanout / predecessors / successors ...), or over a container looked
    up by one of its own parameters (`for operand in gates[net]: define(operand)`), makes the call depth follow the depth of the
    circuit or netlist: CPython stops at about 1000 frames, so a chain of 1200 buffers raises RecursionError where the property
    promises a result.  Recursion over anything else is not judged (a note).  One obligation per function.
    """
    n = 0
    for rel, qual in funcs:
        fi = repo.funcs.get((rel, qual))
        if fi is None:
            raise AnalysisError(f"anchor {qual} not found", rel)
        found = []
        other = []
        defs = [fi.node] + [x for x in ast.walk(fi.node) if isinstance(x, ast.FunctionDef) and x is not fi.node]
        for d in defs:
            params = {a.arg for a in d.args.posonlyargs + d.args.args + d.args.kwonlyargs}
            pm = parents_map(d)

            def looks_up(expr, keys):
                """the expression reads a container by (something derived from) a parameter, or asks for the neighbours of a node"""
                for x in ast.walk(expr):
                    if isinstance(x, ast.Subscript) and any(isinstance(y, ast.Name) and y.id in keys for y in ast.walk(x.slice)):
                        return True
                    if isinstance(x, ast.Call) and isinstance(x.func, ast.Attribute) and x.func.attr == "get" and any(isinstance(y, ast.Name) and y.id in keys for a in x.args for y in ast.walk(a)):
                        return True
                    if isinstance(x, ast.Attribute) and x.attr in _NEIGHBOUR_WORDS:
                        return True
                return False

            # locals that hold what such a look-up returned (`gate, operands = gates[net]`), to a fixpoint
            derived = set()
            for _ in range(4):
                for st in ast.walk(d):
                    if isinstance(st, (ast.Assign, ast.AnnAssign, ast.NamedExpr)) and getattr(st, "value", None) is not None:
                        v = st.value
                        if looks_up(v, params | derived) or any(isinstance(y, ast.Name) and y.id in derived for y in ast.walk(v)):
                            tg = st.targets if isinstance(st, ast.Assign) else [st.target]
                            derived |= {y.id for t in tg for y in ast.walk(t) if isinstance(y, ast.Name)}
            for c in ast.walk(d):
                if not isinstance(c, ast.Call):
                    continue
                callee = c.func.id if isinstance(c.func, ast.Name) else (c.func.attr if isinstance(c.func, ast.Attribute) and dotted(c.func.value) in ("self", "cls") else None)
                if callee != d.name:
                    continue
                # the call must be lexically inside d itself, not inside a function nested in d that shadows the name
                owner = next((p for p in enclosing(c, pm, (ast.FunctionDef, ast.Lambda))), d)
                if owner is not d and isinstance(owner, ast.FunctionDef):
                    continue
                arg_names = {x.id for a in list(c.args) + [k.value for k in c.keywords] for x in ast.walk(a) if isinstance(x, ast.Name)}
                along = False
                for loop in enclosing(c, pm, (ast.For, ast.ListComp, ast.SetComp, ast.GeneratorExp, ast.DictComp)):
                    gens = [(loop.target, loop.iter)] if isinstance(loop, ast.For) else [(g.target, g.iter) for g in loop.generators]
                    for target, it in gens:
                        tnames = {x.id for x in ast.walk(target) if isinstance(x, ast.Name)}
                        if not (tnames & arg_names):
                            continue
                        words = {x.attr for x in ast.walk(it) if isinstance(x, ast.Attribute)} | {x.id for x in ast.walk(it) if isinstance(x, ast.Name)}
                        keyed = any(isinstance(x, ast.Subscript) and any(isinstance(y, ast.Name) and y.id in params for y in ast.walk(x.slice)) for x in ast.walk(it)) or \
                            any(isinstance(x, ast.Call) and isinstance(x.func, ast.Attribute) and x.func.attr == "get" and any(isinstance(y, ast.Name) and y.id in params for a in x.args for y in ast.walk(a)) for x in ast.walk(it))
                        if words & _NEIGHBOUR_WORDS or keyed or (words & derived):
                            along = True
                (found if along else other).append((d.name, c.lineno, norm(c)[:80]))
        n += 1
        if other and not found:
            chk.note(f"{qual}: recursive call(s) {sorted({o[0] for o in other})} not over the neighbours of a node - not judged")
        chk.ob(rule, f"{qual}::call depth independent of the depth of the circuit", not found, file=rel, func=qual, line=found[0][1] if found else fi.node.lineno,
               fact={"recursive_calls_along_the_graph": [{"function": a, "line": b, "call": c_} for a, b, c_ in found[:4]]} if found else {"recursive_calls_along_the_graph": 0},
               expect="no call to itself per step along fanin / fanout (CPython's frame limit turns a chain of about 1000 nodes into RecursionError); iterate with an explicit work list or in topological order")
    return n


# the functions each property is about (its anchors); C12 applies the rule itself to its longer list
PATH_RECURSION_ANCHORS = {
    "C01": [("sat.py", "cnf"), ("sat.py", "solve"), ("sat.py", "construct_solver")],
    "C03": [("io.py", "circuit_to_verilog"), ("io.py", "verilog_to_circuit")],
    "C04": [("tx.py", "miter")],
    "C05": [("tx.py", "limit_fanin"), ("tx.py", "limit_fanout"), ("tx.py", "insert_registers")],
    "C06": [("circuit.py", "Circuit.add_subcircuit"), ("circuit.py", "Circuit.fill_blackbox"), ("tx.py", "strip_blackboxes")],
    "C08": [("sat.py", "model_count"), ("props.py", "signal_probability")],
    "C09": [("tx.py", "unroll"), ("tx.py", "sequential_unroll")],
    "C10": [("tx.py", "ternary")],
    "C11": [("tx.py", "sensitivity_transform"), ("tx.py", "sensitization_transform"), ("props.py", "sensitivity"), ("props.py", "influence")],
    "C14": [("parsing/fast_verilog.py", "fast_parse_verilog_netlist")],
    "C15": [("io.py", "bench_to_circuit"), ("io.py", "circuit_to_bench")],
    "C16": [("circuit.py", "Circuit.remove_unloaded")],
    "C17": [("tx.py", "supergates")],
    "C18": [("tx.py", "acyclic_unroll")],
    "C20": [("utils.py", "lint")],
}
