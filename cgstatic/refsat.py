"""Reference (brute-force) satisfiability functions over the reference Circuit model.

Used as *overrides* when evaluating props.py / tx.py code that calls sat.solve / sat.model_count:
the callers are then checked modulo a correct SAT layer (which C01/C08 decide separately)."""
import itertools

from .minieval import ModelRaise
from .refmodel import free_nodes, simulate


def _check(val, assumptions):
    for k, v in (assumptions or {}).items():
        if bool(val[k]) != bool(v):
            return False
    return True


def _nodes(c):
    return list(c.graph._node)  # read off the raw graph: the oracle must not depend on the circuit class's own queries


def _startpoints(c):
    return sorted(n for n, a in c.graph._node.items() if a.get("type") in ("input", "bb_output"))


def ref_solve(c, assumptions=None):
    for k in (assumptions or {}):
        if k not in c.graph._node:
            raise ModelRaise("ValueError", f"Node '{k}' in assumptions is not in circuit")
    fr = free_nodes(c)
    for bits in itertools.product([False, True], repeat=len(fr)):
        val = simulate(c, dict(zip(fr, bits)))
        if _check(val, assumptions):
            return {n: bool(val[n]) for n in _nodes(c)}
    return False


def ref_model_count(c, assumptions=None):
    for k in (assumptions or {}):
        if k not in c.graph._node:
            raise ModelRaise("ValueError", f"Node '{k}' in assumptions is not in circuit")
    fr = free_nodes(c)
    sp = _startpoints(c)
    seen = set()
    for bits in itertools.product([False, True], repeat=len(fr)):
        a = dict(zip(fr, bits))
        val = simulate(c, a)
        if _check(val, assumptions):
            seen.add(tuple(val[s] for s in sp))
    return len(seen)


def overrides():
    return {("sat.py", "solve"): ref_solve, ("sat.py", "model_count"): ref_model_count}
