#!/bin/sh
# Runs the repository's baseline suite with the (unused) hook guard OFF and
# compares the set of passing tests with BASELINE.json's stable_pass list.
unset CIRCUITGRAPH_VERIF
OUT="$(mktemp -d)"
cd /repo && /venv/bin/python -m pytest -ra -q -p no:cacheprovider --timeout=900 --continue-on-collection-errors --junitxml="$OUT/j.xml" >"$OUT/log" 2>&1
/venv/bin/python - "$OUT/j.xml" <<'PY'
import json, sys, xml.etree.ElementTree as ET
base = json.load(open('/root/.vp/BASELINE.json')) if __import__('os').path.exists('/root/.vp/BASELINE.json') else None
passed = set()
for tc in ET.parse(sys.argv[1]).getroot().iter('testcase'):
    if not any(ch.tag in ('failure', 'error', 'skipped') for ch in tc):
        passed.add(f"{tc.get('classname')}::{tc.get('name')}")
print(f"passed: {len(passed)}")
if base:
    missing = sorted(set(base['stable_pass']) - passed)
    print(f"baseline stable_pass: {len(base['stable_pass'])}; missing: {missing}")
    sys.exit(1 if missing else 0)
PY
RC=$?
rm -rf "$OUT"
exit $RC
