#!/usr/bin/env python3
"""
Self-test of the checkers (tests the *checker*, never decides a property).

Each variant is one textual edit of a scratch copy of /repo/circuitgraph
(outside /repo and /verif, removed afterwards).  `fire` variants must make the
named check exit 1 with a VIOLATION line; `silent` variants (behaviour
preserving refactors) must leave it at exit 0.

usage: selftest/run.py [Cxx ...] [-j N] [-k substring] [-v]
"""
import argparse
import concurrent.futures as cf
import importlib.util
import json
import os
import shutil
import subprocess
import sys
import tempfile
from pathlib import Path

HERE = Path(__file__).resolve().parent
VERIF = HERE.parent
REPO = Path(os.environ.get("CGSTATIC_REPO", "/repo"))


def load_variants():
    out = []
    for p in sorted((HERE / "variants").glob("c*.py")):
        spec = importlib.util.spec_from_file_location(p.stem, p)
        m = importlib.util.module_from_spec(spec)
        spec.loader.exec_module(m)
        for v in m.VARIANTS:
            v = dict(v)
            v.setdefault("property", p.stem.upper()[:3])
            out.append(v)
    return out


def apply_edits(root, edits):
    for e in edits:
        f = root / "circuitgraph" / e["file"]
        s = f.read_text()
        if "fn" in e:
            s2 = e["fn"](s)
            if s2 is None or s2 == s:
                return f"edit function does not apply: {e['file']}"
            f.write_text(s2)
            if f.suffix == ".py":
                try:
                    compile(s2, str(f), "exec")
                except SyntaxError as ex:
                    return f"variant does not compile: {ex}"
            continue
        cnt = s.count(e["old"])
        want = e.get("count", 1)
        if cnt != want:
            return f"edit does not apply: {e['file']}: {cnt} match(es) of {e['old'][:60]!r}, wanted {want}"
        s = s.replace(e["old"], e["new"])
        f.write_text(s)
        if f.suffix == ".py":
            try:
                compile(s, str(f), "exec")
            except SyntaxError as ex:
                return f"variant does not compile: {ex}"
    return None


def run_variant(v):
    tmp = Path(tempfile.mkdtemp(prefix="cgstatic-selftest-"))
    try:
        shutil.copytree(REPO / "circuitgraph", tmp / "circuitgraph", ignore=shutil.ignore_patterns("__pycache__", "netlists"))
        err = apply_edits(tmp, v["edits"])
        if err:
            return v, "broken-variant", err
        checks = v.get("checks") or [v["property"]]
        results = []
        for pid in checks:
            p = subprocess.run([str(VERIF / "check"), pid, "--repo", str(tmp), "--no-evidence", "--evidence-dir", str(tmp / "ev")],
                               capture_output=True, text=True, cwd=str(VERIF))
            results.append((pid, p.returncode, p.stdout))
        if v["expect"] == "fire":
            ok = any(rc == 1 and "VIOLATION" in out for _, rc, out in results)
            if ok and v.get("must_mention"):
                ok = any(v["must_mention"] in out for _, rc, out in results)
        else:
            ok = all(rc == 0 and "VIOLATION" not in out for _, rc, out in results)
        detail = "; ".join(f"{pid}: rc={rc}" for pid, rc, _ in results)
        if not ok:
            tail = "\n".join(l for _, _, out in results for l in out.splitlines() if l.startswith(("VIOLATION", "ANALYSIS-ERROR")) or "violated" in l)[:800]
            detail += "\n" + tail
        return v, "ok" if ok else "FAIL", detail
    finally:
        shutil.rmtree(tmp, ignore_errors=True)


def main():
    ap = argparse.ArgumentParser()
    ap.add_argument("props", nargs="*")
    ap.add_argument("-j", type=int, default=min(16, os.cpu_count() or 4))
    ap.add_argument("-k", default=None)
    ap.add_argument("-v", action="store_true")
    ap.add_argument("--json", default=None)
    args = ap.parse_args()
    vs = load_variants()
    if args.props:
        want = {p.upper() for p in args.props}
        vs = [v for v in vs if v["property"] in want]
    if args.k:
        vs = [v for v in vs if args.k in v["id"]]
    res = {"fire_ok": 0, "fire_total": 0, "silent_ok": 0, "silent_total": 0, "failures": []}
    with cf.ThreadPoolExecutor(max_workers=args.j) as ex:
        for v, status, detail in ex.map(run_variant, vs):
            kind = v["expect"]
            res[f"{kind}_total"] += 1
            if status == "ok":
                res[f"{kind}_ok"] += 1
                if args.v:
                    print(f"ok    {v['property']} {kind:6} {v['id']}")
            else:
                res["failures"].append({"id": v["id"], "property": v["property"], "expect": kind, "status": status, "detail": detail})
                print(f"{status:5} {v['property']} {kind:6} {v['id']}: {detail}")
    print(f"selftest: must_fire {res['fire_ok']}/{res['fire_total']}  must_silent {res['silent_ok']}/{res['silent_total']}")
    if args.json:
        Path(args.json).write_text(json.dumps(res, indent=1))
    return 0 if not res["failures"] else 1


if __name__ == "__main__":
    sys.exit(main())
