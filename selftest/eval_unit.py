#!/usr/bin/env python3
"""
Differential self-test of the checker's definitional evaluator (cgstatic.minieval + userclass): each snippet defines
`f()`; it is run by CPython and by the evaluator, the results (or exception kinds) must agree.  The snippets are the
Python idioms that behaviour-preserving refactorings of the repository used and that the evaluator once rejected
(exit 2) or got wrong.  This tests the *checker*, not the repository.

usage: selftest/eval_unit.py        (exit 0 = all agree)
"""
import ast
import collections
import dataclasses
import functools
import itertools
import operator
import sys
import typing
from pathlib import Path

sys.path.insert(0, str(Path(__file__).resolve().parent.parent))
from cgstatic.minieval import BlockInterp, ModelRaise, Unsupported  # noqa: E402
from cgstatic.pkgenv import bind_stdlib_imports  # noqa: E402

SNIPPETS = {
    "mutable-default-shared": """
def g(x, acc=[]):
    acc.append(x)
    return list(acc)
def f():
    return [g(1), g(2), g(3, []), g(4)]
""",
    "lambda-defaults-kwargs": """
def f():
    h = lambda a, b=2, *r, k=5, **kw: (a, b, r, k, sorted(kw))
    return [h(1), h(1, 3, 4, 5, k=6, z=1)]
""",
    "lazy-generator-first-error-wins": """
def reasons(d):
    if d.get("a") is None:
        yield "no a"
    if d["b"] > 1:
        yield "b too big"
def f():
    out = []
    for d in ({}, {"a": 1, "b": 3}, {"a": 1, "b": 0}):
        out.append(next(reasons(d), None))
    return out
""",
    "generator-send-return-yield-from": """
def head(tag):
    got = yield ("head", tag)
    return (yield ("second", got))
def plan(tags):
    seen = []
    for t in tags:
        r = yield from head(t)
        seen.append(r)
    x = yield ("tail", len(seen))
    return seen, x
def f():
    g = plan("ab")
    out = [next(g)]
    i = 0
    try:
        while True:
            i += 1
            out.append(g.send(i * 10))
    except StopIteration as e:
        out.append(("ret", e.value))
    def empty():
        return 5
        yield
    def outer():
        v = yield from empty()
        w = yield from [1, 2]
        return v, w
    o = outer()
    out.append(list(o))
    g2 = plan("a")
    try:
        g2.send(3)
    except TypeError:
        out.append("just-started")
    return out
""",
    "dataclass-initvar-init-false-kw-only": """
from dataclasses import InitVar, dataclass, field
@dataclass(eq=False)
class Job:
    src: InitVar[list]
    k: int
    side: str = "in"
    copy: list = field(init=False, repr=False)
    n: int = field(init=False, default=0)
    tag: str = field(default="t", kw_only=True)
    def __post_init__(self, src):
        if self.k < 2:
            raise ValueError("k")
        self.copy = list(src)
        self.n += len(src)
@dataclass
class Sub(Job):
    extra: int = 7
def f():
    a = Job([1, 2], 3, side="out")
    out = [a.k, a.side, a.copy, a.n, a.tag, hasattr(a, "src")]
    try:
        Job([1], 1)
    except ValueError as e:
        out.append("ve")
    try:
        Job([1], 2, "in", "x")
    except TypeError:
        out.append("te-positional")
    try:
        Job([1], 2, copy=[3])
    except TypeError:
        out.append("te-init-false")
    try:
        Job(k=2)
    except TypeError:
        out.append("te-missing-initvar")
    s = Sub([9], 4, "s", 8, tag="z")
    out.append((s.k, s.side, s.extra, s.copy, s.tag))
    return out
""",
    "class-attributes-stored-by-chained-init-subclass": """
class Base:
    registry = {}
    def __init_subclass__(cls, kinds=(), **kwargs):
        super().__init_subclass__(**kwargs)
        for kind in kinds:
            Base.registry[kind] = cls
    def __init__(self, x):
        self.x = x
    @staticmethod
    def signed(sign, v):
        return v if sign > 0 else -v
    def encode(self):
        return self.x
class J(Base):
    out_sign = in_sign = 1
    def __init_subclass__(cls, out=1, ins=1, **kwargs):
        super().__init_subclass__(**kwargs)
        cls.out_sign, cls.in_sign = out, ins
    def encode(self):
        n = super().encode()
        signed = self.signed
        return [signed(-self.out_sign, n), signed(self.in_sign, 7)]
class A(J, kinds=("and",), out=1, ins=1):
    pass
class O(J, kinds=("or",), out=-1, ins=-1):
    pass
def f():
    return [(k, Base.registry[k](3).encode(), Base.registry[k].out_sign) for k in sorted(Base.registry)], J.out_sign, O.in_sign
""",
    "property-with-setter": """
class Box:
    def __init__(self):
        self.inner = {"name": "a"}
        self.log = []
    @property
    def name(self):
        return self.inner["name"]
    @name.setter
    def name(self, value):
        self.log.append(value)
        self.inner["name"] = value.upper()
class Sub(Box):
    @property
    def ro(self):
        return 1
def f():
    b = Sub()
    b.name = "x"
    out = [b.name, b.log, b.inner]
    try:
        b.ro = 2
    except AttributeError:
        out.append("ro")
    return out
""",
    "dict-subclass-hierarchy-with-registry": """
from typing import ClassVar
class Ledger(dict):
    __slots__ = ()
    _modes: ClassVar[dict] = {}
    def __init_subclass__(cls, /, maximum, **kwargs):
        super().__init_subclass__(**kwargs)
        Ledger._modes[maximum] = cls
    @classmethod
    def starting_at(cls, ns, maximum):
        return cls._modes[bool(maximum)].fromkeys(cls.listed(ns), 0)
    @staticmethod
    def listed(ns):
        return (ns,) if isinstance(ns, str) else ns
    def arrive(self, n, depth):
        self[n] = depth
        return depth
    @property
    def extreme(self):
        raise NotImplementedError
class Deep(Ledger, maximum=True):
    __slots__ = ()
    def arrive(self, n, depth):
        return super().arrive(n, max(self[n], depth) if n in self else depth)
    @property
    def extreme(self):
        return max(self.values())
class Shallow(Ledger, maximum=False):
    __slots__ = ()
    def arrive(self, n, depth):
        return super().arrive(n, min(self[n], depth) if n in self else depth)
    @property
    def extreme(self):
        return min(self.values())
def f():
    out = []
    for m in (True, False, 1, 0):
        led = Ledger.starting_at(["a", "b"], m)
        led.arrive("a", 3)
        led.arrive("a", 1)
        led.arrive("c", 2)
        out.append((type(led).__name__, dict(led), led.extreme, isinstance(led, dict), Ledger.listed("x")))
    return out
""",
    "parameter-named-like-the-function": """
class Box:
    def __init__(self, pool):
        self.items = [1, 2]
        self.pool = pool
    @property
    def pool(self):
        return self._pool
    @pool.setter
    def pool(self, pool):
        self._pool = pool
        self._ind = [pool.get(i) for i in self.items]
def scale(scale, x):
    return scale * x
def f():
    def fact(n):
        return 1 if n < 2 else n * fact(n - 1)
    b = Box({1: "a"})
    b.pool = {2: "b"}
    return b._ind, b.pool, scale(3, 4), fact(5)
""",
    "iterator-classes-and-unary-invert": """
class Pairs:
    def __init__(self, probe, k):
        self.probe = probe
        self.k = k
        self.i = 0
    def __iter__(self):
        return self
    def __next__(self):
        pool = self.probe()
        if not len(pool) > self.k:
            raise StopIteration
        i = self.i
        self.i += 1
        return i, pool.pop(), pool.pop()
class Work:
    def __init__(self):
        self.items = []
    def push(self, x):
        self.items.append(x)
    def __iter__(self):
        return self
    def __next__(self):
        if not self.items:
            raise StopIteration
        return self.items.pop(0)
    def __bool__(self):
        return bool(self.items)
    def __len__(self):
        return len(self.items)
def f():
    data = [1, 2, 3, 4, 5, 6]
    out = []
    for i, a, b in Pairs(lambda: data, 2):
        out.append((i, a, b))
        data.append(a + b)
    w = Work()
    w.push(1); w.push(2)
    seen = []
    for x in w:
        seen.append(x)
        if x < 4:
            w.push(x + 2)
    return out, data, seen, bool(w), len(w), list(Pairs(lambda: [1], 2)), ~sum(1 << i for i in (0, 2)), next(iter(Work()), "empty")
""",
    "descriptors-set-name-and-get": """
class Infix:
    def __set_name__(self, owner, name):
        self.kind = name.removesuffix("_gate")
        self.owner = owner.__name__
    def __get__(self, obj, owner=None):
        if obj is None:
            return self
        kind = self.kind
        def callback(items):
            return obj.emit(kind, items)
        return callback
class T:
    and_gate = Infix()
    or_gate = Infix()
    plain = 5
    def __init__(self):
        self.log = []
    def emit(self, kind, items):
        self.log.append((kind, tuple(items)))
        return kind + "_" + "_".join(items)
class S(T):
    xor_gate = Infix()
def f():
    t = S()
    r = [t.and_gate(["a", "b"]), t.or_gate(["c"]), t.xor_gate(["x", "y"]), t.plain]
    return r, t.log, T.__dict__["and_gate"].kind if False else S.xor_gate.owner
""",
    "infinite-generator": """
def naturals():
    i = 0
    while True:
        yield i
        i += 1
def f():
    return next(x for x in naturals() if x * x > 50), list(zip("abc", naturals()))
""",
    "generator-side-effects-interleaved": """
def gen(log):
    log.append("start")
    yield 1
    log.append("middle")
    yield 2
    log.append("end")
def f():
    log = []
    g = gen(log)
    log.append("created")
    a = next(g)
    log.append("got1")
    b = next(g)
    rest = list(g)
    return log, a, b, rest
""",
    "yield-from-and-return": """
def inner():
    yield 1
    yield 2
def outer():
    yield 0
    yield from inner()
    return
    yield 99
def f():
    return list(outer())
""",
    "generator-raises-midway": """
def g():
    yield 1
    raise ValueError("x")
def f():
    out = []
    try:
        for x in g():
            out.append(x)
    except ValueError:
        out.append("caught")
    return out
""",
    "match-values-or-capture-guard": """
def kind(t, n):
    match t:
        case "and" | "nand":
            return "conj"
        case "or" | "nor" if n > 1:
            return "disj"
        case "0" | "1" as c:
            return "const" + c
        case None:
            return "none"
        case str() as s if s.startswith("bb_"):
            return "pin"
        case [x, y]:
            return ("pair", x, y)
        case [x, *rest]:
            return ("seq", x, rest)
        case {"type": ty, **others}:
            return ("map", ty, sorted(others))
        case int(v):
            return ("int", v)
        case _:
            return "other"
def f():
    return [kind(*a) for a in (("and", 2), ("nor", 1), ("nor", 2), ("1", 0), (None, 0), ("bb_input", 0), ([1, 2], 0), ([1, 2, 3], 0), ({"type": "x", "o": 1}, 0), (7, 0), (2.5, 0))]
""",
    "plain-class-with-state": """
class Acc:
    scale = 2
    def __init__(self, start=0):
        self.total = start
        self.items = []
    def add(self, x):
        self.total += x * self.scale
        self.items.append(x)
        return self
    @property
    def mean(self):
        return self.total / len(self.items) if self.items else None
    @staticmethod
    def twice(x):
        return 2 * x
    @classmethod
    def of(cls, xs):
        a = cls()
        for x in xs:
            a.add(x)
        return a
    def __len__(self):
        return len(self.items)
    def __iter__(self):
        return iter(self.items)
    def __contains__(self, x):
        return x in self.items
    def __call__(self, y):
        return self.total + y
def f():
    a = Acc.of([1, 2, 3])
    b = Acc(10).add(1)
    return a.total, a.mean, len(a), list(a), 2 in a, 5 in a, a(1), Acc.twice(4), a.twice(5), b.total, bool(Acc()), bool(a), isinstance(a, Acc), isinstance(3, Acc)
""",
    "namedtuple-and-NamedTuple": """
from collections import namedtuple
from typing import NamedTuple
P = namedtuple("P", "x y")
class Q(NamedTuple):
    a: int
    b: str = "k"
    @property
    def both(self):
        return (self.a, self.b)
    def bump(self):
        return self._replace(a=self.a + 1)
def f():
    p = P(1, y=2)
    x, y = p
    q = Q(5)
    return p.x, p[1], x + y, tuple(p), p == (1, 2), p._replace(x=9) == P(9, 2), p._asdict(), P._fields, q.both, q.bump().a, len(q), q == Q(5, "k"), sorted([P(2, 1), P(1, 5)])[0].x, {p: 1}[P(1, 2)], [*q]
""",
    "dataclass": """
from dataclasses import dataclass, field
@dataclass
class Box:
    name: str
    nets: list = field(default_factory=list)
    count: int = 0
    def add(self, n):
        self.nets.append(n)
        self.count += 1
    def __post_init__(self):
        self.tag = self.name.upper()
def f():
    a, b = Box("a"), Box("b", count=3)
    a.add("n1")
    return a.nets, b.nets, a.count, b.count, a.tag, a == Box("a", ["n1"], 1), a == b, repr(b)
""",
    "class-with-slots-and-helpers": """
class Search:
    __slots__ = ("best", "pick")
    def __init__(self, maximum):
        self.best = None
        self.pick = max if maximum else min
    def visit(self, v):
        self.best = v if self.best is None else self.pick(self.best, v)
    def result(self):
        return self.best
def f():
    s, t = Search(True), Search(False)
    for v in (3, 9, 1):
        s.visit(v)
        t.visit(v)
    return s.result(), t.result()
""",
    "inheritance": """
class Base:
    kind = "base"
    def __init__(self, n):
        self.n = n
    def describe(self):
        return f"{self.kind}:{self.n}:{self.extra()}"
    def extra(self):
        return 0
class Child(Base):
    kind = "child"
    def extra(self):
        return self.n * 2
def f():
    return Base(1).describe(), Child(2).describe(), isinstance(Child(1), Base), isinstance(Base(1), Child)
""",
    "unbound-builtin-methods-and-operator": """
from operator import methodcaller, itemgetter, attrgetter
from functools import partial, reduce
from itertools import chain, starmap, accumulate, groupby, repeat, count
def f():
    words = [" a ", "b ", " c"]
    return (list(map(str.strip, words)), list(map(str.upper, "ab")), reduce(set.union, [{1}, {2}], set()), list(map(methodcaller("split", ","), ["a,b"])),
            list(map(itemgetter(1), [(1, 2), (3, 4)])), list(starmap(pow, [(2, 3), (3, 2)])), list(accumulate([1, 2, 3])),
            [(k, list(g)) for k, g in groupby("aabbc")], list(zip("ab", repeat(0))), partial(int, base=2)("101"), next(i for i in count(5, -1) if i % 3 == 0),
            list(chain.from_iterable([[1], [2, 3]])))
""",
    "try-else-finally-eafp": """
def get(d, k):
    log = []
    try:
        v = d[k]
    except KeyError:
        v = None
        log.append("miss")
    else:
        log.append("hit")
    finally:
        log.append("done")
    return v, log
def f():
    return get({"a": 1}, "a"), get({}, "a")
""",
    "walrus-and-comprehension-scopes": """
def f():
    data = [3, 8, 1, 9]
    big = [y for x in data if (y := x * 2) > 5]
    total = 0
    seen = {x: (total := total + x) for x in data}
    fs = [lambda i=i: i * 10 for i in range(3)]
    late = [lambda: i for i in range(3)]
    return big, y, seen, total, [g() for g in fs], [g() for g in late]
""",
    "try-except-same-function-bare-raise-hierarchy": """
def g(x):
    try:
        if x == 0:
            raise ValueError("zero")
        return {}[x]
    except LookupError:
        return "lookup"
def h(x):
    log = []
    try:
        try:
            g(x)
        except ValueError as e:
            log.append("inner")
            raise
        finally:
            log.append("finally")
    except Exception:
        log.append("outer")
    return log
def f():
    return g(1), h(0), h(1)
""",
    "custom-exception-subclass-and-raise-from": """
class NetError(ValueError):
    pass
class PinError(NetError):
    def __init__(self, pin):
        super().__init__(f"bad pin {pin}")
        self.pin = pin
def g(x):
    if x == 1:
        raise NetError("one")
    if x == 2:
        try:
            {}["k"]
        except KeyError as e:
            raise PinError("k") from e
    return x
def f():
    out = []
    for x in (0, 1, 2):
        try:
            out.append(g(x))
        except PinError:
            out.append("pin")
        except ValueError:
            out.append("value")
    try:
        g(2)
    except NetError:
        out.append("net")
    return out
""",
    "contextmanager-suppress-with-exit": """
from contextlib import contextmanager, suppress
@contextmanager
def tracked(log, name):
    log.append("enter " + name)
    try:
        yield name.upper()
    finally:
        log.append("exit " + name)
class Res:
    def __init__(self, log):
        self.log = log
    def __enter__(self):
        self.log.append("in")
        return self
    def __exit__(self, et, ev, tb):
        self.log.append("out")
        return False
def f():
    log = []
    with tracked(log, "a") as v, Res(log):
        log.append(v)
    with suppress(KeyError):
        {}["x"]
        log.append("not reached")
    try:
        with tracked(log, "b"):
            raise ValueError("x")
    except ValueError:
        log.append("caught")
    return log
""",
    "enum-and-singledispatch-and-replace": """
from enum import Enum, auto
from functools import singledispatch
from dataclasses import dataclass, replace
from itertools import pairwise
class Kind(str, Enum):
    AND = "and"
    OR = "or"
    def dual(self):
        return Kind.OR if self is Kind.AND else Kind.AND
class Color(Enum):
    RED = auto()
    BLUE = auto()
@singledispatch
def names(x):
    return list(x)
@names.register(str)
def _(x):
    return [x]
@dataclass(frozen=True)
class P:
    x: int
    y: int = 0
def f():
    k = Kind("and")
    return (k is Kind.AND, k == "and", k.value, k.name, k.dual().value, [m.value for m in Kind], Kind.OR in Kind, "or" in [m.value for m in Kind], Color.RED.value, Color.BLUE.value, Color.RED == Color.BLUE,
            names("ab"), names(("a", "b")), replace(P(1), y=5) == P(1, 5), {P(1, 2): "v"}[P(1, 2)], list(pairwise("abc")), {Kind.AND: 1}[Kind.AND])
""",
    "local-imports-and-dict-operators": """
def f():
    from itertools import chain
    import functools
    from collections import Counter
    a = {"x": 1} | {"y": 2}
    a |= {"z": 3}
    s = {1, 2} ^ {2, 3}
    return list(chain([1], [2])), functools.reduce(lambda p, q: p + q, [1, 2, 3]), a, sorted(s), sorted(Counter("aab").items()), list(zip("ab", "cd", strict=True))
""",
    "walrus-in-generator-expression": """
from itertools import count
def f():
    used = {"n", "n_0", "n_1"}
    name = next(cand for i in count() if (cand := f"n_{i}") not in used)
    return name, cand, any((hit := x) > 2 for x in [1, 3, 5]), hit
""",
    "dict-setdefault-get-fromkeys-and-str-methods": """
def f():
    d = {}
    d.setdefault("a", []).append(1)
    d.setdefault("a", []).append(2)
    e = dict.fromkeys(["x", "y"], 0)
    s = "inst.pin.sub"
    return d, e, s.partition("."), s.rpartition(".")[2], "u0_x".removeprefix("u0_"), "_".join(map(str, (1, 2))), "{}-{:>3}".format("a", 7), "%s=%d" % ("k", 3)
""",
    "nested-closures-nonlocal": """
def f():
    def counter():
        n = 0
        def inc(by=1):
            nonlocal n
            n += by
            return n
        return inc
    a, b = counter(), counter()
    return a(), a(5), b(), a()
""",
    "star-args-and-kw-only": """
def g(a, *rest, key=None, **opts):
    return a, rest, key, sorted(opts.items())
def f():
    args = [1, 2, 3]
    kw = {"key": "k", "z": 0}
    return g(*args, **kw), g(9), g(*"ab", key=1)
""",
    "dict-subclass-with-missing": """
class Aliases(dict):
    __slots__ = ()
    def __missing__(self, k):
        return k
    def twice(self, k):
        return self[k] * 2
def f():
    a = Aliases({"1'b0": "tie0"})
    return [a["1'b0"], a["net"], a.get("zz"), a.twice("q"), len(a), isinstance(a, dict)]
""",
    "enum-functional-api-with-aliases": """
from enum import Enum
G = Enum("G", {"and": "and", "nand": "and", "or": "or", "nor": "or"})
def f():
    out = [G["nand"].value, G["nand"] is G["and"], [m.name for m in G], G("or").name]
    try:
        G["xor"]
    except KeyError:
        out.append("no xor")
    return out
""",
    "exitstack-push-sees-the-exception": """
from contextlib import ExitStack
def f():
    log = []
    def undo(exc_type, exc, tb):
        log.append(("undo", exc_type is not None and issubclass(exc_type, ValueError)))
        return False
    try:
        with ExitStack() as stack:
            stack.push(undo)
            stack.callback(log.append, "cb")
            raise ValueError("rejected")
    except ValueError:
        log.append("propagated")
    with ExitStack() as stack:
        stack.push(undo)
    return log
""",
    "contextmanager-catches-at-the-yield": """
from contextlib import contextmanager
@contextmanager
def discard(log):
    try:
        yield
    except ValueError:
        log.append("rolled back")
        raise
    else:
        log.append("kept")
def f():
    log = []
    with discard(log):
        log.append("body")
    try:
        with discard(log):
            raise ValueError("no")
    except ValueError:
        log.append("seen")
    try:
        with discard(log):
            raise KeyError("other")
    except KeyError:
        log.append("key")
    return log
""",
    "singledispatch-register-by-annotation": """
from functools import singledispatch
@singledispatch
def nodes(ns):
    return list(ns)
@nodes.register
def _(ns: str):
    return [ns]
@nodes.register
def _(ns: int | float):
    return [str(ns)]
def f():
    return [nodes("ab"), nodes(["a", "b"]), nodes(3), nodes(2.5), nodes(("x",))]
""",
    "counter-and-template": """
from collections import Counter
from string import Template
def f():
    c = Counter("abca")
    c.subtract("ab")
    t = Template("module $name ($ports);")
    return [c["a"], c["z"], sorted(c.items()), c.most_common(1), t.substitute(name="m", ports="a, b")]
""",
    "exception-subclass-chain-and-factory": """
class LintError(ValueError):
    MAX = 2
    @classmethod
    def summary(cls, errors):
        return cls(f"{len(errors)} errors: " + "; ".join(errors[: cls.MAX]))
class PinError(LintError):
    pass
def g(kind):
    if kind == 0:
        raise LintError.summary(["a", "b", "c"])
    if kind == 1:
        raise PinError("pin")
    raise KeyError("k")
def f():
    out = []
    for k in (0, 1, 2):
        try:
            g(k)
        except ValueError as e:
            out.append(("value", isinstance(e, LintError), isinstance(e, PinError)))
        except LookupError:
            out.append("lookup")
    return out
""",
    "unhashable-lookup-in-a-set-is-a-typeerror": """
def f():
    out = []
    for t in ("and", ["and"], None, 7):
        try:
            out.append(t in frozenset({"and", "or"}))
        except TypeError:
            out.append("TypeError")
    out.append(["and"] in ["and", ["and"]])
    return out
""",
    "isinstance-against-abcs-sees-str-as-iterable": """
from collections.abc import Iterable, Sequence, Mapping
def f():
    return [isinstance("ab", Iterable), isinstance("ab", Sequence), isinstance({1}, Sequence), isinstance({}, Mapping), isinstance(3, Iterable), isinstance((x for x in ()), Iterable)]
""",
    "method-lru-cache-is-per-object": """
from functools import lru_cache
class Box:
    def __init__(self, v):
        self.v = v
        self.calls = 0
    @lru_cache(maxsize=None)
    def get(self, k):
        self.calls += 1
        return (self.v, k)
def f():
    a, b = Box(1), Box(2)
    r = [a.get("x"), a.get("x"), b.get("x"), a.get("y")]
    a.v = 9
    r.append(a.get("x"))
    return r + [a.calls, b.calls]
""",
    "user-class-with-a-method-named-lookup": """
from enum import Enum
class NodeType(Enum):
    BUF = "buf"
    INPUT = "input"
    @classmethod
    def lookup(cls, t):
        try:
            return cls(t)
        except ValueError:
            return None
    @property
    def is_source(self):
        return self is NodeType.INPUT
class Table:
    def mro(self):
        return "mine"
def f():
    return [NodeType.lookup("buf").is_source, NodeType.lookup("input").is_source, NodeType.lookup("zz"), Table().mro()]
""",
    "abc-strategy-classes-with-super-init": """
from abc import ABC, abstractmethod
class Dual(ABC):
    @abstractmethod
    def encode(self, n):
        ...
    def label(self):
        return "dual"
class Controlled(Dual):
    def __init__(self, controlling):
        super().__init__()
        self.controlling = controlling
    def encode(self, n):
        return (n, self.controlling, self.detect(n))
    @abstractmethod
    def detect(self, n):
        ...
    def label(self):
        return "controlled:" + super().label()
class AndDual(Controlled):
    def __init__(self):
        super().__init__("0")
    def detect(self, n):
        return n + "_is_0"
    def label(self):
        return "and:" + super().label()
def f():
    a = AndDual()
    return [a.encode("p"), a.label(), isinstance(a, Dual), isinstance(a, Controlled)]
""",
    "except-clause-over-a-variable": """
from contextlib import contextmanager
@contextmanager
def undo_on(exc_type, undo):
    try:
        yield
    except exc_type:
        undo()
        raise
def f():
    log = []
    for exc, which in ((ValueError, (ValueError, KeyError)), (KeyError, ValueError), (IndexError, (LookupError,))):
        try:
            with undo_on(which, lambda: log.append("undone")):
                raise exc("x")
        except Exception as e:
            log.append(type(e).__name__)
    return log
""",
    "augmented-assignment-is-in-place-for-mutables": """
from collections import deque
def touch(attrs, names, seen):
    attrs |= {"type": "buf", "output": True}
    names += ["x"]
    seen -= {"a"}
    seen ^= {"z"}
def f():
    a, n, s = {"type": "bb_input"}, ["n"], {"a", "b"}
    alias = a
    touch(a, n, s)
    t = (1, 2)
    u = t
    t += (3,)
    d = deque([1, 2, 3], maxlen=2)
    d.appendleft(0)
    return [alias, n, sorted(s), t, u, list(d), d.maxlen]
""",
    "list-grows-while-a-for-loop-walks-it": """
def f():
    tree = {"o": ["a", "b"], "a": ["c"], "b": [], "c": ["d", "e"], "d": [], "e": []}
    heads = ["o"]
    order = []
    for node in heads:
        order.append(node)
        members = list(tree[node])
        for m in members:
            if len(tree[m]) == 1:
                members.append(tree[m][0])
            elif tree[m]:
                heads.append(m)
        order.append(tuple(members))
    return order
""",
    "init-subclass-registry-with-class-keywords": """
from abc import ABC, abstractmethod
REG = {}
class Enc(ABC):
    alias = None
    def __init_subclass__(cls, types=(), **kwargs):
        super().__init_subclass__(**kwargs)
        inst = None
        for t in types:
            inst = inst or cls()
            REG[t] = inst
    @abstractmethod
    def lits(self, x):
        ...
class And(Enc, types=("and",)):
    alias = "buf"
    def out(self, l):
        return l
    def lits(self, x):
        return [self.out(x), -x]
class Nand(And, types=("nand", "nnd")):
    alias = "not"
    def out(self, l):
        return -super().out(l)
class Helper(And):
    pass
def f():
    return [sorted(REG), REG["nand"].lits(3), REG["and"].lits(3), REG["nand"] is REG["nnd"], REG["nand"].alias, type(REG["and"]).__name__]
""",
    "operators-of-value-objects": """
from typing import NamedTuple
from dataclasses import dataclass
class Lit(NamedTuple):
    net: str
    positive: bool = True
    def __neg__(self):
        return Lit(self.net, not self.positive)
    def __invert__(self):
        return -self
@dataclass(frozen=True)
class Clause:
    lits: tuple
    def __or__(self, other):
        return Clause(self.lits + (other.lits if isinstance(other, Clause) else (other,)))
    def __ror__(self, other):
        return Clause((other,) + self.lits)
    def __len__(self):
        return len(self.lits)
    def __ge__(self, other):
        return len(self) >= len(other)
def f():
    a, b = Lit("a"), Lit("b", False)
    c = Clause((a,)) | -b | Clause((~a,))
    d = a | Clause((b,))
    out = [tuple(-a), (-b).positive, len(c), [l.net for l in d.lits], c >= d, a + b, a * 2 == ("a", True, "a", True), a <= b]
    try:
        -Clause(())
    except TypeError:
        out.append("no unary minus")
    try:
        Clause(()) + 1
    except TypeError:
        out.append("no plus")
    return out
""",
    "methods-registered-by-a-mark-on-the-function": """
def encodes(*kinds):
    def register(method):
        method.kinds = kinds
        return method
    return register
class Encoder:
    "doc"
    limit = 3
    def __init__(self):
        self.log = []
    @encodes("and", "nand")
    def _conj(self, n):
        self.log.append(("conj", n))
        return len(self.log)
    @encodes("buf")
    def _wire(self, n):
        self.log.append(("wire", n))
        return -1
    @staticmethod
    def helper(x):
        return x
    def plain(self):
        return 0
    @classmethod
    def encoder_of(cls, kind):
        return cls._TABLE.get(kind)
Encoder._TABLE = {kind: method for method in vars(Encoder).values() for kind in getattr(method, "kinds", ())}
def f():
    e = Encoder()
    out = [sorted(Encoder._TABLE), Encoder.encoder_of("nand")(e, "g"), Encoder.encoder_of("buf")(e, "w"), Encoder.encoder_of("xor"), e.log, Encoder._conj.kinds, hasattr(Encoder.plain, "kinds"),
           getattr(Encoder.plain, "kinds", None), Encoder._wire.__name__]
    try:
        Encoder.plain.kinds
    except AttributeError:
        out.append("no mark")
    return out
""",
    "signature-of-the-wrapped-function": """
import inspect
from functools import wraps
def first_is_positive(fn):
    sig = inspect.signature(fn)
    first = next(iter(sig.parameters))
    @wraps(fn)
    def wrapper(*args, **kwargs):
        bound = sig.bind(*args, **kwargs)
        if bound.arguments[first] <= 0:
            raise ValueError(first)
        bound.apply_defaults()
        return fn(*args, **kwargs), sorted(bound.arguments), fn.__name__
    return wrapper
@first_is_positive
def scale(n, factor=2, *, offset=0):
    "doc"
    return n * factor + offset
def f():
    out = [scale(3), scale(factor=5, n=1), scale(2, offset=1), scale.__name__, scale.__doc__, list(inspect.signature(scale).parameters)]
    for bad in (lambda: scale(0), lambda: scale(), lambda: scale(1, 2, 3), lambda: scale(1, nope=1)):
        try:
            bad()
            out.append("returned")
        except (ValueError, TypeError) as e:
            out.append(type(e).__name__)
    return out
""",
}


def run_cpython(src):
    env = {}
    try:
        exec(compile(src, "<snippet>", "exec"), env)
        return ("return", env["f"]())
    except Exception as e:  # noqa: BLE001
        return ("raise", type(e).__name__)


def run_evaluator(src):
    tree = ast.parse(src)
    env = {}
    bind_stdlib_imports(tree, env)
    bi = BlockInterp(env, max_steps=200000)
    bi.me.env = env
    try:
        r = bi.run([st for st in tree.body if not isinstance(st, (ast.Import, ast.ImportFrom))])
        if r != "next":
            return ("odd", r)
        return ("return", env["f"]())
    except ModelRaise as e:
        return ("raise", e.kind)
    except Unsupported as e:
        return ("unsupported", str(e))


def normal(v):
    from cgstatic.userclass import UserInstance

    if isinstance(v, UserInstance):
        return ("obj", repr(v))
    if isinstance(v, tuple) and hasattr(v, "_fields"):
        return ("obj", repr(v))
    if dataclasses.is_dataclass(v) and not isinstance(v, type):
        return ("obj", repr(v))
    if isinstance(v, (list, tuple)):
        return [normal(x) for x in v]
    if isinstance(v, dict):
        return {repr(normal(k)): normal(x) for k, x in v.items()}
    if isinstance(v, (set, frozenset)):
        return sorted(map(repr, v))
    return v


def main():
    bad = 0
    for name, src in SNIPPETS.items():
        a, b = run_cpython(src), run_evaluator(src)
        ok = a[0] == b[0] and (normal(a[1]) == normal(b[1]) if a[0] == "return" else a[1] == b[1])
        print(f"{'ok  ' if ok else 'FAIL'} {name}" + ("" if ok else f"\n     cpython  : {str(a)[:300]}\n     evaluator: {str(b)[:300]}"))
        bad += not ok
    print(f"evaluator unit test: {len(SNIPPETS) - bad}/{len(SNIPPETS)} snippets agree with CPython")
    return 1 if bad else 0


if __name__ == "__main__":
    sys.exit(main())
